#!/bin/bash
# usage: probe.sh <timeout> <file.py> fn1 fn2 ...   (run in the directory of file.py)
T=$1; F=$2; shift 2
M=$(basename $F .py)
for f in "$@"; do ( s=$(date +%s.%N); r=$(PYTHONPATH=/verif:/repo/src:. timeout $((T*2+20)) /verif/.venv/bin/crosshair check --extra_plugin /verif/vf/chplugin_cli.py --report_all --per_condition_timeout $T $M.$f 2>&1 | tail -2 | tr '\n' ' '); printf "%s: %s [%.1fs]\n" "$f" "$r" "$(echo "$(date +%s.%N)-$s"|bc)" ) & done 2>/dev/null
wait
