#!/bin/bash
# usage: seed_confirm2.sh <Cnn>  -- round 2: worktree /tmp/mut/r2_<Cnn>, stored as /verif/seeded/<Cnn>-C and -D
C=$1; W=/tmp/mut/r2_$C
cd $W || exit 1
git checkout -q -- .
for k in A B; do
  [ -f _out/patch$k.diff ] || continue
  n=$( [ $k = A ] && echo C || echo D )
  D=/verif/seeded/$C-$n; mkdir -p $D
  PYTHONPATH=$W/src /venv/bin/python _out/demo$k.py >/dev/null 2>&1; clean=$?
  git apply _out/patch$k.diff || { echo "$C-$n apply failed"; continue; }
  t=$(PYTHONPATH=$W/src /venv/bin/python -m pytest -q -p no:cacheprovider --timeout=900 2>&1 | tail -1)
  PYTHONPATH=$W/src /venv/bin/python _out/demo$k.py >/dev/null 2>&1; mut=$?
  git checkout -q -- .
  cp _out/patch$k.diff $D/patch.diff; cp _out/demo$k.py $D/demo.py; cp _out/note$k.txt $D/note.txt 2>/dev/null
  python3 - "$C" "$n" "$t" "$clean" "$mut" <<'PY'
import json,sys,os
C,k,t,clean,mut=sys.argv[1:]
p=f'/verif/seeded/{C}-{k}/note.txt'
note=open(p).read() if os.path.exists(p) else ''
json.dump({"property":C,"id":f"{C}-{k}","round":2,"source":"independent sub-agent given only the property text and a scratch worktree (second round, after the checks existed; asked for less obvious mechanisms)",
 "needs_to_manifest":note.strip()[:1500],
 "confirmed":{"test_suite_with_patch":t.strip(),"demo_exit_clean":int(clean),"demo_exit_patched":int(mut),
   "commands":["git apply patch.diff (scratch worktree)","PYTHONPATH=<wt>/src /venv/bin/python -m pytest -q -p no:cacheprovider --timeout=900","PYTHONPATH=<wt>/src /venv/bin/python demo.py"]},
 "kept": (int(clean)==0 and int(mut)!=0 and 'passed' in t and 'failed' not in t)},
 open(f'/verif/seeded/{C}-{k}/meta.json','w'),indent=1)
print(C,k,t.strip(),'clean',clean,'patched',mut)
PY
done
