#!/bin/bash
# usage: seed_confirm.sh <Cnn>  -- confirm both seeded changes of a property in its scratch worktree
# and store them under /verif/seeded/<Cnn>-<k>/
C=$1; W=/tmp/mut/$C
cd $W || exit 1
git checkout -q -- . 
for k in A B; do
  [ -f _out/patch$k.diff ] || continue
  D=/verif/seeded/$C-$k; mkdir -p $D
  PYTHONPATH=$W/src /venv/bin/python _out/demo$k.py >/dev/null 2>&1; clean=$?
  git apply _out/patch$k.diff || { echo "$C-$k apply failed"; continue; }
  t=$(PYTHONPATH=$W/src /venv/bin/python -m pytest -q -p no:cacheprovider --timeout=900 2>&1 | tail -1)
  PYTHONPATH=$W/src /venv/bin/python _out/demo$k.py >/dev/null 2>&1; mut=$?
  git checkout -q -- .
  cp _out/patch$k.diff $D/patch.diff; cp _out/demo$k.py $D/demo.py; cp _out/note$k.txt $D/note.txt 2>/dev/null
  python3 - "$C" "$k" "$t" "$clean" "$mut" <<'PY'
import json,sys
C,k,t,clean,mut=sys.argv[1:]
note=open(f'/verif/seeded/{C}-{k}/note.txt').read() if __import__('os').path.exists(f'/verif/seeded/{C}-{k}/note.txt') else ''
json.dump({"property":C,"id":f"{C}-{k}","source":"independent sub-agent given only the property text and a scratch worktree",
 "needs_to_manifest":note.strip()[:1500],
 "confirmed":{"test_suite_with_patch":t.strip(),"demo_exit_clean":int(clean),"demo_exit_patched":int(mut),
   "commands":["git apply patch.diff (scratch worktree)","PYTHONPATH=<wt>/src /venv/bin/python -m pytest -q -p no:cacheprovider --timeout=900","PYTHONPATH=<wt>/src /venv/bin/python demo.py"]},
 "kept": (int(clean)==0 and int(mut)!=0 and 'passed' in t and 'failed' not in t)},
 open(f'/verif/seeded/{C}-{k}/meta.json','w'),indent=1)
print(C,k,t.strip(),'clean',clean,'patched',mut)
PY
done
