#!/bin/sh
# MANIFEST.setup_cmd: build the overlay virtualenv the checks run in.
# Offline: /venv (repo environment, left untouched) + wheels from /opt/veriftools/wheels.
set -e
cd "$(dirname "$0")"
V=/verif/.venv
[ -d "$(pwd)/.venv" ] || V="$(pwd)/.venv"
V="$(pwd)/.venv"
if [ ! -x "$V/bin/python" ] || ! "$V/bin/python" -c "import crosshair, z3" 2>/dev/null; then
    rm -rf "$V"
    /venv/bin/python -m venv "$V"
    SP=$("$V/bin/python" -c "import sysconfig; print(sysconfig.get_paths()['purelib'])")
    echo "import site; site.addsitedir('/venv/lib/python3.12/site-packages')" > "$SP/_overlay.pth"
    PIP_NO_INDEX=1 "$V/bin/pip" install -q --no-index --find-links /opt/veriftools/wheels \
        crosshair-tool z3-solver cvc5 jsonschema
fi
"$V/bin/python" -c "import crosshair, z3, pycel; print('setup ok: crosshair', crosshair.__version__, 'z3', z3.get_version_string(), 'pycel from', pycel.__file__)"
