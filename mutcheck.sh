#!/bin/bash
# usage: mutcheck.sh <patch.diff> <Cnn> [extra check args]
# Applies a seeded change in a scratch worktree of /repo (never in /repo itself), points the check at it
# through VF_REPO_SRC, and removes the worktree afterwards.
P=$(readlink -f "$1"); C=$2; shift 2
W=/tmp/mw/$(basename "$(dirname "$P")")_$C_$$
mkdir -p /tmp/mw
git -C /repo worktree add --detach -q "$W" HEAD || { echo "WORKTREE FAILED"; exit 3; }
trap 'git -C /repo worktree remove --force "$W" 2>/dev/null; rm -rf "$W"' EXIT
git -C "$W" apply "$P" || { echo "APPLY FAILED"; exit 3; }
cd /verif && VF_REPO_SRC="$W/src" VF_REPLAY_DIR="/tmp/mw/replays_$$" ./check $C --no-evidence "$@" 2>&1 | grep -v "^  obligation" | tail -12
rc=${PIPESTATUS[0]}
rm -rf "/tmp/mw/replays_$$"
echo "exit=$rc"
