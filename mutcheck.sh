#!/bin/bash
# usage: mutcheck.sh <patch.diff> <Cnn> [extra check args]  -- apply a seeded change to /repo, run the check, undo
P=$1; C=$2; shift 2
cd /repo && git apply "$P" || { echo "APPLY FAILED"; exit 3; }
cd /verif && ./check $C --no-evidence "$@" 2>&1 | grep -v "^  obligation" | tail -12
rc=${PIPESTATUS[0]}
cd /repo && git checkout -- . 
rm -rf /verif/replays/$C
echo "exit=$rc"
