"""Re-execute one obligation body on concrete arguments in plain CPython (no solver, no proxies).

stdin / file: {"obligation": {...}, "args": {name: "<python literal source>"}}
prints one JSON line {"reproduced": bool, "outcome": str}
"""
import importlib
import json
import logging
import sys
import traceback

logging.disable(logging.CRITICAL)


def main():
    src = sys.stdin.read() if sys.argv[1] == "-" else open(sys.argv[1]).read()
    spec = json.loads(src)
    from vf.obl import Obligation, symbolic_signature
    ob = Obligation.from_json(spec["obligation"])
    mod = importlib.import_module(ob.module)
    fn = getattr(mod, ob.func)
    if ob.engine == "K":
        from vf.kengine.sym import Engine, PathAbort
        eng = Engine()
        try:
            eng.concrete = {k: eval(v, {"inf": float("inf"), "nan": float("nan")}) for k, v in spec["args"].items()}
        except Exception as e:  # noqa
            print(json.dumps({"reproduced": None, "outcome": "cannot rebuild arguments: " + repr(e)}))
            return
        try:
            r = fn(eng, *ob.params)
        except PathAbort:
            print(json.dumps({"reproduced": False, "outcome": "precondition not met by the counterexample"}))
            return
        except BaseException as e:  # noqa
            print(json.dumps({"reproduced": True, "outcome": "raised " + "".join(
                traceback.format_exception_only(type(e), e)).strip()[:400]}))
            return
        print(json.dumps({"reproduced": r is False, "outcome": "body returned " + repr(r)}))
        return
    _, names = symbolic_signature(ob.module, ob.func, len(ob.params), ob.sig)
    ns = dict(vars(mod))
    ns.update({"float": float, "inf": float("inf"), "nan": float("nan")})
    try:
        vals = {n: eval(spec["args"][n], ns) for n in names}
    except Exception as e:  # noqa
        print(json.dumps({"reproduced": None, "outcome": "cannot rebuild arguments: " + repr(e)}))
        return
    try:
        r = fn(*ob.params, **vals)
    except BaseException as e:  # noqa
        print(json.dumps({"reproduced": True,
                          "outcome": "raised " + "".join(traceback.format_exception_only(type(e), e)).strip()[:400]}))
        return
    print(json.dumps({"reproduced": r is False, "outcome": "body returned " + repr(r)}))


if __name__ == "__main__":
    main()
