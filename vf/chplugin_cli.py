# `crosshair check --extra_plugin /verif/vf/chplugin_cli.py` with PYTHONPATH=/verif:/repo/src
# installs the same models as the worker (for ad-hoc probes)
def _install():
    import os
    from vf import chplugin
    chplugin.install()
    chplugin.set_float_mode(os.environ.get('VF_FLOAT', 'real'))
_install()
