"""Numeric leaf models of Engine K for the rounding family: exact decimals (Decimal/quantize/repr),
binary64 floats that remember the decimal they were written as (DecFloat), builtin round, math.*"""
import decimal
import math
from fractions import Fraction

import z3

from vf.kengine.rat import SRat
from vf.kengine.sym import RNE, SBool, SFloat, SInt, SReal, Unsupported


def rv(x):
    """exact z3 Real of a concrete number"""
    fr = Fraction(x)
    return z3.RealVal(f"{fr.numerator}/{fr.denominator}")


class DecFloat(SFloat):
    """the double nearest to k/10^j (IEEE division of two exactly representable integers), which also knows its
    shortest decimal rendering k/10^j.  Lemma used by repr(): for |k| <= 10^6 and j <= 6 the shortest string that
    round-trips to that double is the decimal k/10^j itself (7 significant digits < 15)."""

    def __init__(self, k, j, eng):
        self.k, self.j = k, j
        e = z3.fpDiv(RNE, z3.fpToFP(RNE, z3.ToReal(k.e), z3.Float64()), z3.FPVal(float(10 ** j), z3.Float64()))
        SFloat.__init__(self, e, eng)

    def exact(self):
        return z3.ToReal(self.k.e) / rv(10 ** self.j)


class DecText(str):
    """repr() of a number, carrying the exact rational it spells"""

    def __new__(cls, real, eng):
        return str.__new__(cls, "")

    def __init__(self, real, eng):
        self.real, self.eng = real, eng


def k_repr(x):
    if isinstance(x, SRat):
        return RatText(x)
    if isinstance(x, DecFloat):
        return RatText(SRat(x.k.e, 10 ** x.j, x.eng))
    if isinstance(x, SReal):
        return DecText(x.e, x.eng)
    if isinstance(x, SInt):
        return DecText(z3.ToReal(x.e), x.eng)
    if isinstance(x, SFloat):
        raise Unsupported("repr() of a computed binary64 value (shortest round-trip digits are not modelled)")
    return repr(x)


class RatText(str):
    """repr() of an exact rational number"""

    def __new__(cls, rat):
        return str.__new__(cls, "")

    def __init__(self, rat):
        self.rat = rat


class RatDecimal:
    """Decimal over SRat: quantize to a concrete quantum in the three modes pycel uses (+ half even)"""

    def __init__(self, rat):
        self.rat = rat

    def quantize(self, quant, rounding=None):
        q = Fraction(quant)
        x = self.rat
        a = abs(x) / q                       # SRat
        fl = a.__floor__()                   # SInt
        eng = x.eng
        fl_r = SRat(fl.e, 1, eng)
        if rounding == decimal.ROUND_HALF_UP:
            n = (a + Fraction(1, 2)).__floor__()
        elif rounding == decimal.ROUND_DOWN:
            n = fl
        elif rounding == decimal.ROUND_UP:
            n = a.__ceil__()
        elif rounding == decimal.ROUND_HALF_EVEN or rounding is None:
            twice = (a - fl_r) * 2           # in [0, 2)
            up = SInt(fl.e + 1, eng)
            n = SInt(z3.If((twice > 1).e, up.e, z3.If((twice < 1).e, fl.e, z3.If(fl.e % 2 == 0, fl.e, up.e))), eng)
        else:
            raise Unsupported(f"rounding mode {rounding}")
        mag = SRat(n.e, 1, eng) * q
        res = SRat(z3.If(x.num >= 0, mag.num, -mag.num), mag.den, eng)
        return RatDecimal(res)


def k_decimal(x="0"):
    """Decimal(): symbolic for a repr() of a symbolic number, the real decimal.Decimal otherwise"""
    if isinstance(x, RatText):
        return RatDecimal(x.rat)
    if isinstance(x, SFloat):
        # Decimal(float) is the exact binary value of the double
        r = KDecimal.__new__(KDecimal)
        r.e, r.eng = z3.fpToReal(x.e), x.eng
        return r
    if isinstance(x, SRat):
        return RatDecimal(x)        # 'floats as exact reals': the double is identified with the decimal
    if isinstance(x, (DecText, KDecimal, SInt)):
        return KDecimal(x)
    return decimal.Decimal(x)


class KDecimal:
    """exact decimal arithmetic as z3 reals"""

    def __init__(self, x, eng=None):
        if isinstance(x, DecText):
            self.e, self.eng = x.real, x.eng
        elif isinstance(x, KDecimal):
            self.e, self.eng = x.e, x.eng
        elif isinstance(x, (str, int)) and not isinstance(x, SInt):
            self.e, self.eng = rv(Fraction(decimal.Decimal(x))), eng
        elif isinstance(x, SInt):
            self.e, self.eng = z3.ToReal(x.e), x.eng
        else:
            raise Unsupported(f"Decimal({type(x).__name__})")

    def quantize(self, quant, rounding=None):
        q = quant.e if isinstance(quant, KDecimal) else rv(Fraction(quant))
        eng = self.eng or getattr(quant, "eng", None)
        a = z3.If(self.e >= 0, self.e, -self.e) / q
        fl = z3.ToReal(z3.ToInt(a))
        if rounding == decimal.ROUND_HALF_UP:
            n = z3.ToReal(z3.ToInt(a + rv(Fraction(1, 2))))
        elif rounding == decimal.ROUND_DOWN:
            n = fl
        elif rounding == decimal.ROUND_UP:
            n = z3.If(fl == a, fl, fl + 1)
        elif rounding == decimal.ROUND_HALF_EVEN or rounding is None:
            half = a - fl
            n = z3.If(half > rv(Fraction(1, 2)), fl + 1,
                      z3.If(half < rv(Fraction(1, 2)), fl, z3.If(z3.ToInt(fl) % 2 == 0, fl, fl + 1)))
        else:
            raise Unsupported(f"rounding mode {rounding}")
        r = KDecimal.__new__(KDecimal)
        r.e, r.eng = z3.If(self.e >= 0, n * q, -(n * q)), eng
        return r

    def __float__(self):
        raise Unsupported("float(Decimal) through C (use the patched float)")


def k_float(x=0.0):
    if isinstance(x, RatDecimal):
        return x.rat
    if isinstance(x, SRat):
        return x
    if isinstance(x, KDecimal):
        return SReal(x.e, x.eng)         # the decimal value itself (its double prints as that decimal)
    if isinstance(x, SInt):
        return SReal(z3.ToReal(x.e), x.eng)
    if isinstance(x, (SReal, SFloat)):
        return x
    return float(x)


def k_round(x, nd=None):
    """builtin round: half to even"""
    if isinstance(x, SFloat) and not isinstance(x, DecFloat) and (nd in (None, 0)):
        return x.__round__(nd)
    if isinstance(x, SRat):
        nd_ = 0 if nd is None else int(nd)
        return RatDecimal(x).quantize(Fraction(10) ** (-nd_), decimal.ROUND_HALF_EVEN).rat
    if not isinstance(x, (SReal, SFloat, SInt)):
        return round(x, nd) if nd is not None else round(x)
    eng = x.eng
    if isinstance(x, DecFloat):
        val = x.exact()
    elif isinstance(x, SReal):
        val = x.e
    elif isinstance(x, SInt):
        val = z3.ToReal(x.e)
    else:
        raise Unsupported("round() of a computed binary64 value")
    nd = 0 if nd is None else int(nd)
    q = rv(Fraction(10) ** (-nd))
    a = val / q
    fl = z3.ToReal(z3.ToInt(a))
    half = a - fl
    n = z3.If(half > rv(Fraction(1, 2)), fl + 1, z3.If(half < rv(Fraction(1, 2)), fl, z3.If(z3.ToInt(fl) % 2 == 0, fl, fl + 1)))
    return SReal(n * q, eng)


class KMath:
    """math module proxy: floor / ceil / copysign / trunc on symbolic numbers, everything else delegated"""

    def __getattr__(self, name):
        return getattr(math, name)

    @staticmethod
    def fmod(x, y):
        """C fmod: x - trunc(x / y) * y (sign of x)"""
        if isinstance(x, SRat) and not isinstance(y, (SRat, SInt, SReal, SFloat)):
            if y == 0:
                raise ValueError("math domain error")
            q = (x / y).__trunc__()
            return x - SRat(q.e, 1, x.eng) * Fraction(y)
        if isinstance(x, (SRat, SInt, SReal, SFloat)) or isinstance(y, (SRat, SInt, SReal, SFloat)):
            raise Unsupported("fmod on these symbolic operands")
        return math.fmod(x, y)

    @staticmethod
    def floor(x):
        if isinstance(x, SRat):
            return x.__floor__()
        if isinstance(x, (SReal, SFloat)):
            return x.__floor__()
        if isinstance(x, SInt):
            return x
        return math.floor(x)

    @staticmethod
    def ceil(x):
        if isinstance(x, SRat):
            return x.__ceil__()
        if isinstance(x, (SReal, SFloat)):
            return x.__ceil__()
        if isinstance(x, SInt):
            return x
        return math.ceil(x)

    @staticmethod
    def trunc(x):
        if isinstance(x, (SReal, SFloat)):
            return x.__trunc__()
        if isinstance(x, SInt):
            return x
        return math.trunc(x)

    @staticmethod
    def copysign(a, b):
        if isinstance(a, (SRat, SInt)) and isinstance(b, (SRat, SInt)) or isinstance(a, SRat) or isinstance(b, SRat):
            eng = (a if isinstance(a, (SRat, SInt)) else b).eng
            ra, rb = SRat.of(a, eng), SRat.of(b, eng)
            mag = abs(ra)
            return SRat(z3.If(rb.num >= 0, mag.num, -mag.num), mag.den, eng)
        if not isinstance(a, (SReal, SInt, SFloat)) and not isinstance(b, (SReal, SInt, SFloat)):
            return math.copysign(a, b)
        eng = (a if isinstance(a, (SReal, SInt, SFloat)) else b).eng

        def real(v):
            if isinstance(v, SReal):
                return v.e
            if isinstance(v, SInt):
                return z3.ToReal(v.e)
            if isinstance(v, SFloat):
                raise Unsupported("copysign on binary64")
            return rv(v)
        ra, rb = real(a), real(b)
        mag = z3.If(ra >= 0, ra, -ra)
        return SReal(z3.If(rb >= 0, mag, -mag), eng)      # (-0.0 is not distinguished in the real model)
