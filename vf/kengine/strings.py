"""String values of Engine K: digit strings (Numeral), arbitrary short ASCII text (Chars) and the model of
CPython's int(text, base) grammar.  Models are written once over a tiny backend (z3 terms or plain
Python values) so that they can be validated concretely against CPython."""
import z3

from vf.kengine.sym import SBool, SInt, Unsupported, PathAbort

WS = (9, 10, 11, 12, 13, 32)       # what CPython's int() skips (not 0x1c..0x1f)


# ----------------------------------------------------------------------------- backend helpers
def _sym(*xs):
    return any(z3.is_expr(x) for x in xs)


def ite(c, a, b):
    if z3.is_expr(c):
        return z3.If(c, a, b)
    return a if c else b


def land(*xs):
    if _sym(*xs):
        return z3.And(*[x if z3.is_expr(x) else z3.BoolVal(bool(x)) for x in xs])
    return all(xs)


def lor(*xs):
    if _sym(*xs):
        return z3.Or(*[x if z3.is_expr(x) else z3.BoolVal(bool(x)) for x in xs])
    return any(xs)


def lnot(x):
    return z3.Not(x) if z3.is_expr(x) else (not x)


# ----------------------------------------------------------------------------- int(text, base)
LWS, SIGNED, ZERO, PREFIX, DIG, US, TWS, ERR = range(8)


def digit_value(c):
    """value of an ASCII digit/letter (36 = not a digit)"""
    return ite(land(c >= 48, c <= 57), c - 48,
               ite(land(c >= 97, c <= 122), c - 87,
                   ite(land(c >= 65, c <= 90), c - 55, 36)))


def is_ws(c):
    return lor(*[c == w for w in WS])


def parse_int(length, cs, base, define=lambda e: e):
    """(valid, value) of CPython's int(text, base) for base in (2, 8, 16, 10) on an ASCII text given as length
    and code points.  Grammar: [ws] [+-] [0b|0o|0x (matching the base)] digits-with-single-underscores [ws]"""
    pl = {2: (98, 66), 8: (111, 79), 16: (120, 88), 10: (-1, -1)}[base]
    state, value, neg = LWS, 0, False
    for i, c in enumerate(cs):
        active = i < length
        d = digit_value(c)
        isd = d < base
        ws = is_ws(c)
        sign = lor(c == 43, c == 45)
        us = c == 95
        pref = lor(c == pl[0], c == pl[1])

        def when(st):
            return state == st
        nxt = ite(when(LWS),
                  ite(ws, LWS, ite(sign, SIGNED, ite(land(isd, d == 0), ZERO, ite(isd, DIG, ERR)))),
                  ite(when(SIGNED),
                      ite(land(isd, d == 0), ZERO, ite(isd, DIG, ERR)),
                      ite(when(ZERO),
                          ite(pref, PREFIX, ite(isd, DIG, ite(us, US, ite(ws, TWS, ERR)))),
                          ite(when(PREFIX),
                              ite(isd, DIG, ite(us, US, ERR)),
                              ite(when(DIG),
                                  ite(isd, DIG, ite(us, US, ite(ws, TWS, ERR))),
                                  ite(when(US),
                                      ite(isd, DIG, ERR),
                                      ite(when(TWS), ite(ws, TWS, ERR), ERR)))))))
        nxt = define(nxt)
        consumes = land(active, lor(nxt == DIG, nxt == ZERO), isd)
        value = define(ite(consumes, value * base + d, value))
        neg = define(ite(land(active, when(LWS), c == 45), True, neg))
        state = define(ite(active, nxt, state))
    valid = lor(state == ZERO, state == DIG, state == TWS)
    return valid, ite(neg, -value, value)


def py_parse_int(text, base):
    """the model run on a concrete text (for validation against CPython)"""
    cs = [ord(ch) for ch in text]
    if any(c > 127 for c in cs):
        raise ValueError("ascii only")
    return parse_int(len(cs), cs, base)


# ----------------------------------------------------------------------------- values
def ndigits(v, base, maxd=14):
    """number of digits of the non-negative z3 Int v in the base (at least 1)"""
    n = z3.IntVal(1)
    for k in range(1, maxd):
        n = n + z3.If(v >= base ** k, 1, 0)
    return n


class Numeral(str):
    """digit string of a non-negative integer in a base: optional '0b'/'0o'/'0x' prefix, zero padding to minlen.
    (a str subclass so that isinstance(x, str) holds in code that is not patched, e.g. excelutil.flatten)"""

    def __new__(cls, eng, base, value, minlen=0, prefix=False, upper=True):
        return str.__new__(cls, "")

    def __init__(self, eng, base, value, minlen=0, prefix=False, upper=True):
        self.eng, self.base, self.value, self.minlen, self.prefix, self.upper_ = eng, base, value, minlen, prefix, upper

    def _len(self):
        n = ndigits(self.value.e, self.base)
        ml = self.minlen.e if isinstance(self.minlen, SInt) else z3.IntVal(int(self.minlen))
        core = z3.If(n >= ml, n, ml)
        return core + (2 if self.prefix else 0)

    def __len__(self):
        raise Unsupported("len() of a symbolic numeral through C (use the patched len)")

    def length(self):
        return SInt(self._len(), self.eng)

    def __getitem__(self, sl):
        if isinstance(sl, slice) and sl.start == 2 and sl.stop is None and sl.step is None and self.prefix:
            return Numeral(self.eng, self.base, self.value, self.minlen, False, self.upper_)
        raise Unsupported(f"slice {sl} of a numeral")

    def upper(self):
        return Numeral(self.eng, self.base, self.value, self.minlen, self.prefix, True)

    def lower(self):
        return Numeral(self.eng, self.base, self.value, self.minlen, self.prefix, False)

    def zfill(self, n):
        if self.prefix:
            raise Unsupported("zfill on a prefixed numeral")
        if isinstance(n, SInt):
            cur = self.minlen.e if isinstance(self.minlen, SInt) else z3.IntVal(int(self.minlen))
            return Numeral(self.eng, self.base, self.value, SInt(z3.If(n.e >= cur, n.e, cur), self.eng), False, self.upper_)
        cur = self.minlen
        if isinstance(cur, SInt):
            return Numeral(self.eng, self.base, self.value, SInt(z3.If(cur.e >= int(n), cur.e, int(n)), self.eng), False, self.upper_)
        return Numeral(self.eng, self.base, self.value, max(int(n), int(cur)), False, self.upper_)

    def __eq__(self, o):
        if isinstance(o, Numeral):
            if o.base != self.base or o.prefix != self.prefix:
                raise Unsupported("comparison of numerals of different bases")
            return SBool(z3.And(self.value.e == o.value.e, self._len() == o._len()), self.eng)
        if isinstance(o, str):
            if o[:1] == "#":
                return False        # a numeral never spells an error code
            raise Unsupported("numeral == concrete text")
        return False

    def __ne__(self, o):
        r = self.__eq__(o)
        return (not r) if isinstance(r, bool) else ~r

    def __hash__(self):
        return 0

    def __iter__(self):
        return iter(self.to_chars())

    def to_chars(self, maxlen=11):
        """explicit characters for re-parsing: fresh digit variables d_i with value = sum d_i * base^(len-1-i)
        (linear for each length), zero padding included; length <= maxlen asserted"""
        if self.prefix:
            raise Unsupported("to_chars on a prefixed numeral")
        eng = self.eng
        ln = eng.define(self._len())
        eng.add(ln <= maxlen)
        eng._nch = getattr(eng, "_nch", 0) + 1
        ds = [z3.Int(f"_dg{eng._nch}_{i}") for i in range(maxlen)]
        for d in ds:
            eng.add(z3.And(d >= 0, d < self.base))
        for L in range(1, maxlen + 1):
            eng.add(z3.Implies(ln == L, self.value.e == z3.Sum([ds[i] * (self.base ** (L - 1 - i)) for i in range(L)])))
        cs = [eng.define(z3.If(d < 10, d + 48, d + (55 if self.upper_ else 87))) for d in ds]
        return Chars(ln, cs, eng)

    def __repr__(self):
        return f"Numeral(base={self.base}, {self.value})"


class Chars(str):
    """arbitrary ASCII text of bounded length: symbolic length and code points (a str subclass, see Numeral)"""

    def __new__(cls, ln, cs, eng):
        return str.__new__(cls, "")

    def __init__(self, ln, cs, eng):
        self.ln, self.cs, self.eng = ln, cs, eng

    def length(self):
        return SInt(self.ln, self.eng)

    def __len__(self):
        raise Unsupported("len() of symbolic text through C (use the patched len)")

    def __eq__(self, o):
        if isinstance(o, str):
            if len(o) > len(self.cs):
                return False
            return SBool(z3.And(self.ln == len(o), *[self.cs[i] == ord(ch) for i, ch in enumerate(o)]), self.eng)
        if o is None:
            return False
        raise Unsupported("Chars == " + type(o).__name__)

    def __ne__(self, o):
        r = self.__eq__(o)
        return (not r) if isinstance(r, bool) else ~r

    def __hash__(self):
        return 0

    def __iter__(self):
        for i in range(len(self.cs)):
            if not self.eng.branch(self.ln > i):
                return
            yield Chars(z3.IntVal(1), [self.cs[i]], self.eng)

    def __getitem__(self, sl):
        if isinstance(sl, slice) and sl.step is None and not isinstance(sl.start, SInt) and not isinstance(sl.stop, SInt):
            a = 0 if sl.start is None else sl.start
            b = len(self.cs) if sl.stop is None else sl.stop
            if a < 0 or b < 0:
                raise Unsupported("negative slice bounds on symbolic text")
            b = min(b, len(self.cs))
            cs = self.cs[a:b]
            ln = z3.If(self.ln <= a, 0, z3.If(self.ln >= b, b - a, self.ln - a)) if b > a else z3.IntVal(0)
            return Chars(ln, cs, self.eng)
        if isinstance(sl, int) and not isinstance(sl, SInt) and sl >= 0:
            if self.eng.branch(self.ln > sl):
                return Chars(z3.IntVal(1), [self.cs[sl]], self.eng)
            raise IndexError("string index out of range")
        raise Unsupported(f"subscript {sl!r} of symbolic text")

    def all_in(self, alphabet):
        """every character belongs to the alphabet (one term, no forks)"""
        return SBool(z3.And(*[z3.Or(self.ln <= i, *[c == ord(a) for a in alphabet]) for i, c in enumerate(self.cs)]), self.eng)

    def any_in(self, alphabet):
        return SBool(z3.Or(*[z3.And(self.ln > i, z3.Or(*[c == ord(a) for a in alphabet])) for i, c in enumerate(self.cs)]), self.eng)

    def _map(self, f):
        return Chars(self.ln, [f(c) for c in self.cs], self.eng)

    def lower(self):
        return self._map(lambda c: z3.If(z3.And(c >= 65, c <= 90), c + 32, c))

    def upper(self):
        return self._map(lambda c: z3.If(z3.And(c >= 97, c <= 122), c - 32, c))

    def startswith(self, p):
        ps = p if isinstance(p, tuple) else (p,)
        acc = None
        for q in ps:
            e = z3.And(self.ln >= len(q), *[self.cs[i] == ord(ch) for i, ch in enumerate(q)]) if len(q) <= len(self.cs) else z3.BoolVal(False)
            acc = e if acc is None else z3.Or(acc, e)
        return SBool(acc, self.eng)

    def __contains__(self, sub):
        if isinstance(sub, str) and len(sub) == 1:
            return SBool(z3.Or(*[z3.And(self.ln > i, c == ord(sub)) for i, c in enumerate(self.cs)]), self.eng)
        raise Unsupported("substring test on symbolic text")

    def __repr__(self):
        return "Chars(<symbolic>)"


class OrSet:
    """`x in frozenset` as a disjunction of equalities (hashing a symbolic value is meaningless)"""

    def __init__(self, items):
        self.items = tuple(sorted(items, key=repr))

    def __contains__(self, x):
        if not isinstance(x, (SInt, Chars, Numeral, SBool)) and type(x).__name__ not in ("SReal", "SFloat"):
            return x in frozenset(self.items)
        acc = None
        for it in self.items:
            e = (x == it)
            if e is True:
                return True
            if e is False or e is NotImplemented:
                continue
            acc = e if acc is None else (acc | e)
        return False if acc is None else acc

    def __iter__(self):
        return iter(self.items)


# ----------------------------------------------------------------------------- built-in models
import builtins as _b  # noqa: E402


def k_len(x):
    if isinstance(x, (Numeral, Chars)):
        return x.length()
    return _b.len(x)


def k_isinstance(x, t):
    ts = t if _b.isinstance(t, tuple) else (t,)
    ts = tuple({k_int: int, k_str: str}.get(c, c) if callable(c) and not _b.isinstance(c, type) else c for c in ts)
    t = ts if _b.isinstance(t, tuple) else ts[0]
    if isinstance(x, (Numeral, Chars)):
        return str in ts
    if isinstance(x, SInt):
        return int in ts
    if type(x).__name__ in ("SReal", "SFloat", "SRat", "DecFloat"):
        return float in ts
    if isinstance(x, SBool):
        return bool in ts or int in ts
    return _b.isinstance(x, t)


def k_str(x=""):
    if isinstance(x, SInt):
        eng = x.eng
        if eng.branch(x.e < 0):
            raise Unsupported("str() of a negative symbolic int")
        return Numeral(eng, 10, x, 0, False)
    if isinstance(x, (Numeral, Chars)):
        return x
    return _b.str(x)


def _based(base, pref):
    def f(x):
        if isinstance(x, SInt):
            if x.eng.branch(x.e < 0):
                raise Unsupported(f"{pref}() of a negative symbolic int")
            return Numeral(x.eng, base, x, 0, True, False)
        return {2: _b.bin, 8: _b.oct, 16: _b.hex}[base](x)
    return f


k_bin, k_oct, k_hex = _based(2, "bin"), _based(8, "oct"), _based(16, "hex")


def k_int(x=0, base=None):
    if isinstance(x, SInt):
        if base is not None:
            raise TypeError("int() can't convert non-string with explicit base")
        return x
    if type(x).__name__ in ("SReal", "SFloat", "SRat", "DecFloat"):
        return x.__int__()
    if isinstance(x, Numeral):
        b = 10 if base is None else base
        if b == x.base and not x.prefix:
            return x.value
        x = x.to_chars()
    if isinstance(x, Chars):
        b = 10 if base is None else base
        valid, value = parse_int(x.ln, x.cs, b, x.eng.define)
        if x.eng.branch(valid):
            return SInt(value, x.eng)
        raise ValueError("invalid literal for int() (model)")
    if base is None:
        return _b.int(x)
    return _b.int(x, base)


class patched:
    """context manager: install the models in a kernel module's namespace (and restore afterwards)"""

    def __init__(self, module, extra=None):
        self.module = module
        self.names = {"len": k_len, "isinstance": k_isinstance, "str": k_str, "int": k_int,
                      "bin": k_bin, "oct": k_oct, "hex": k_hex}
        if extra:
            self.names.update(extra)
        self.saved = {}

    def __enter__(self):
        for k, v in self.names.items():
            self.saved[k] = self.module.__dict__.get(k, _MISSING)
            self.module.__dict__[k] = v
        return self

    def __exit__(self, *a):
        for k, v in self.saved.items():
            if v is _MISSING:
                del self.module.__dict__[k]
            else:
                self.module.__dict__[k] = v


_MISSING = object()


def validate_parse_int(maxlen=4):
    """the int(text, base) model against CPython on every string up to maxlen over a critical alphabet"""
    import itertools
    alpha = " +-_0179abBFgoxX\t\x1c\x0c"
    n = 0
    for base in (2, 8, 16, 10):
        for L in range(0, maxlen + 1):
            for tup in itertools.product(alpha, repeat=L):
                text = "".join(tup)
                try:
                    real = (True, int(text, base))
                except ValueError:
                    real = (False, None)
                valid, value = py_parse_int(text, base)
                n += 1
                if bool(valid) != real[0] or (real[0] and value != real[1]):
                    raise AssertionError(f"int({text!r}, {base}): model {(valid, value)} vs CPython {real}")
    return n
