"""SRat: exact rational numbers num/den with a symbolic integer numerator and a concrete positive
denominator.  Everything stays in linear integer arithmetic with div/mod by constants (what z3 decides
fast); used for the 'floats as exact reals' obligations and the Decimal model."""
from fractions import Fraction

import z3

from vf.kengine.sym import SBool, SInt, Unsupported


def _lcm(a, b):
    import math
    return a * b // math.gcd(a, b)


class SRat:
    def __init__(self, num, den, eng):
        assert isinstance(den, int) and den > 0
        self.num, self.den, self.eng = num, den, eng          # num: z3 Int term

    @staticmethod
    def of(x, eng):
        if isinstance(x, SRat):
            return x
        if isinstance(x, SInt):
            return SRat(x.e, 1, eng)
        if isinstance(x, bool):
            return SRat(z3.IntVal(int(x)), 1, eng)
        if isinstance(x, int):
            return SRat(z3.IntVal(x), 1, eng)
        if isinstance(x, (float, Fraction)):
            fr = Fraction(x)
            return SRat(z3.IntVal(fr.numerator), fr.denominator, eng)
        return None

    def _pair(self, o):
        b = SRat.of(o, self.eng)
        if b is None:
            return None
        d = _lcm(self.den, b.den)
        return self.num * (d // self.den), b.num * (d // b.den), d

    def __add__(self, o):
        p = self._pair(o)
        return NotImplemented if p is None else SRat(p[0] + p[1], p[2], self.eng)

    __radd__ = __add__

    def __sub__(self, o):
        p = self._pair(o)
        return NotImplemented if p is None else SRat(p[0] - p[1], p[2], self.eng)

    def __rsub__(self, o):
        p = self._pair(o)
        return NotImplemented if p is None else SRat(p[1] - p[0], p[2], self.eng)

    def _concrete(self, o):
        if isinstance(o, (SRat, SInt)):
            return None
        if isinstance(o, (int, float, Fraction)):
            return Fraction(o)
        return None

    def __mul__(self, o):
        c = self._concrete(o)
        if c is not None:
            return SRat(self.num * c.numerator, self.den * c.denominator, self.eng)
        b = SRat.of(o, self.eng)
        if b is None:
            return NotImplemented
        return SRat(self.num * b.num, self.den * b.den, self.eng)       # non-linear if both symbolic

    __rmul__ = __mul__

    def __truediv__(self, o):
        c = self._concrete(o)
        if c is None:
            raise Unsupported("division by a symbolic number (non-linear)")
        if c == 0:
            raise ZeroDivisionError("float division by zero")
        sign = -1 if c < 0 else 1
        return SRat(self.num * (sign * c.denominator), self.den * abs(c.numerator), self.eng)

    def __rtruediv__(self, o):
        raise Unsupported("division by a symbolic number (non-linear)")

    def __neg__(self):
        return SRat(-self.num, self.den, self.eng)

    def __pos__(self):
        return self

    def __abs__(self):
        return SRat(z3.If(self.num >= 0, self.num, -self.num), self.den, self.eng)

    def _cmp(self, o, f):
        p = self._pair(o)
        if p is None:
            return NotImplemented
        return SBool(f(p[0], p[1]), self.eng)

    def __lt__(self, o):
        return self._cmp(o, lambda a, b: a < b)

    def __le__(self, o):
        return self._cmp(o, lambda a, b: a <= b)

    def __gt__(self, o):
        return self._cmp(o, lambda a, b: a > b)

    def __ge__(self, o):
        return self._cmp(o, lambda a, b: a >= b)

    def __eq__(self, o):
        r = self._cmp(o, lambda a, b: a == b)
        return False if r is NotImplemented else r

    def __ne__(self, o):
        r = self._cmp(o, lambda a, b: a != b)
        return True if r is NotImplemented else r

    def __hash__(self):
        return 0

    def __bool__(self):
        return self.eng.branch(self.num != 0)

    def __floor__(self):
        return SInt(self.num / self.den, self.eng)            # z3 Int div with a positive divisor is floor

    def __ceil__(self):
        return SInt(-((-self.num) / self.den), self.eng)

    def __trunc__(self):
        return SInt(z3.If(self.num >= 0, self.num / self.den, -((-self.num) / self.den)), self.eng)

    __int__ = __trunc__

    def is_integer(self):
        return SBool(self.num % self.den == 0, self.eng)

    def __mod__(self, o):
        c = self._concrete(o)
        if c is None:
            raise Unsupported("modulo by a symbolic number")
        if c == 0:
            raise ZeroDivisionError("float modulo")
        q = (self / c).__floor__()
        return self - SRat(q.e, 1, self.eng) * c

    def __format__(self, spec):
        """format(x, 'f' | '.Nf'): some N/10^nd with |x*10^nd - N| <= 1/2 (either neighbour at an exact tie: CPython
        decides ties on the binary value, which an exact rational does not carry; counterexamples are replayed)"""
        import re
        m = re.fullmatch(r"(?:\.(\d+))?f", spec)
        if not m:
            raise Unsupported(f"format spec {spec!r} on a symbolic number")
        eng, scale = self.eng, 10 ** (int(m.group(1)) if m.group(1) else 6)
        eng._ndef = getattr(eng, "_ndef", 0) + 1
        n = z3.Int(f"_fmt{eng._ndef}")
        t = 2 * self.num * scale - 2 * n * self.den
        eng.solver.add(z3.And(t <= self.den, -t <= self.den))
        from vf.kengine.numeric import RatText
        return RatText(SRat(n, scale, eng))

    def __repr__(self):
        return f"SRat({self.num}/{self.den})"
