"""astz3 / Engine K: a small symbolic executor that runs the *real code objects* of pycel kernels on
z3-backed values.  Branches on symbolic conditions fork (depth-first, by re-execution with a decision
prefix); only leaf built-ins (int, str, len, bin/oct/hex, isinstance, round, math.floor, Decimal, ...)
are replaced - in the kernel module's namespace, for the duration of a run - by the models below.
"""
import time

import z3


class Unsupported(Exception):
    """an operation the engine has no model for was reached with a symbolic operand"""


class PathAbort(Exception):
    """assumption violated / infeasible path"""


class Engine:
    def __init__(self, timeout_s=60):
        self.solver = z3.Solver()
        self._timeout_ms = int(timeout_s * 1000)
        self.solver.set("timeout", self._timeout_ms)
        self.prefix, self.pos, self.trace = [], 0, []
        self.checks, self.solver_s = 0, 0.0
        self.symbols = {}
        self.concrete = None

    # ---- symbols
    def int(self, name):
        if self.concrete is not None:
            return int(self.concrete[name])
        self.symbols[name] = z3.Int(name)
        return SInt(self.symbols[name], self)

    def real(self, name):
        if self.concrete is not None:
            return float(self.concrete[name])
        self.symbols[name] = z3.Real(name)
        return SReal(self.symbols[name], self)

    def fp(self, name):
        if self.concrete is not None:
            return float(self.concrete[name])
        self.symbols[name] = z3.FP(name, z3.Float64())
        return SFloat(self.symbols[name], self)

    def chars(self, name, maxlen):
        from vf.kengine.strings import Chars
        if self.concrete is not None:
            return str(self.concrete[name])
        ln = z3.Int(name + "_len")
        cs = [z3.Int(f"{name}_{i}") for i in range(maxlen)]
        self.symbols[name] = ("chars", ln, cs)
        self.add(z3.And(ln >= 0, ln <= maxlen))
        for c in cs:
            self.add(z3.And(c >= 0, c <= 127))
        return Chars(ln, cs, self)

    def define(self, e):
        """name an intermediate term (keeps terms small: a fresh constant constrained to equal e)"""
        if not z3.is_expr(e):
            return e
        self._ndef = getattr(self, "_ndef", 0) + 1
        c = z3.Const(f"_d{self._ndef}", e.sort())
        self.solver.add(c == e)
        return c

    # ---- solver plumbing
    def _check(self, *assumptions):
        t = time.perf_counter()
        if getattr(self, "fresh_checks", False):
            # binary64 queries: z3's incremental core (after push) is orders of magnitude slower than a fresh solver
            s2 = z3.Solver()
            s2.set("timeout", self._timeout_ms)
            s2.add(*self.solver.assertions())
            s2.add(*assumptions)
            r = s2.check()
            if r == z3.sat:
                self._fresh_model = s2.model()
        else:
            r = self.solver.check(*assumptions)
        self.checks += 1
        self.solver_s += time.perf_counter() - t
        return r

    def add(self, cond):
        if self.concrete is not None:
            if not cond:
                raise PathAbort()
            return
        self.solver.add(cond if z3.is_expr(cond) else z3.BoolVal(bool(cond)))

    def assume(self, cond):
        """precondition: paths violating it are dropped"""
        if self.concrete is not None:
            if not cond:
                raise PathAbort()
            return
        if isinstance(cond, SBool):
            cond = cond.e
        if isinstance(cond, bool):
            if not cond:
                raise PathAbort()
            return
        self.solver.add(cond)
        if self._check() != z3.sat:
            raise PathAbort()

    def branch(self, cond):
        """decide a symbolic condition on this path"""
        cond = z3.simplify(cond)
        if z3.is_true(cond):
            return True
        if z3.is_false(cond):
            return False
        if self.pos < len(self.prefix):
            choice = self.prefix[self.pos][0]
        else:
            can_t = self._check(cond)
            can_f = self._check(z3.Not(cond))
            if can_t == z3.unknown or can_f == z3.unknown:
                raise Unsupported("solver unknown on a branch condition")
            if can_t == z3.sat and can_f == z3.sat:
                choice = True
                self.prefix.append([True, True])      # [choice, other side pending]
            elif can_t == z3.sat:
                choice = True
                self.prefix.append([True, False])
            elif can_f == z3.sat:
                choice = False
                self.prefix.append([False, False])
            else:
                raise PathAbort()
        self.pos += 1
        self.solver.add(cond if choice else z3.Not(cond))
        return choice

    def explore(self, body, budget_s=120):
        """run body(engine) over every feasible path.  body returns None (precondition not met), a bool or a
        z3 Bool (the property on this path).  Returns dict(verdict, paths, cex, reached)"""
        t0 = time.time()
        paths, reached = 0, 0
        self.prefix = []
        while True:
            if time.time() - t0 > budget_s:
                return dict(verdict="INCONCLUSIVE", detail="time budget exhausted", paths=paths, reached=reached)
            self.pos = 0
            self.solver.push()
            try:
                try:
                    res = body(self)
                    ok = res
                except PathAbort:
                    ok = None
                paths += 1
                if ok is not None:
                    if isinstance(ok, SBool):
                        ok = ok.e
                    reached += 1
                    if isinstance(ok, bool):
                        bad = self._check() if not ok else z3.unsat
                        neg = None
                    else:
                        neg = z3.Not(ok)
                        bad = self._check(neg)
                    if bad == z3.sat:
                        if getattr(self, "fresh_checks", False):
                            m = self._fresh_model
                        else:
                            if neg is not None:
                                self.solver.add(neg)
                                self._check()
                            m = self.solver.model()
                        return dict(verdict="REFUTED", cex=self._model_values(m), paths=paths, reached=reached)
                    if bad == z3.unknown:
                        return dict(verdict="INCONCLUSIVE", detail="solver unknown on the assertion", paths=paths, reached=reached)
            except Unsupported as e:
                return dict(verdict="INCONCLUSIVE", detail="unsupported: " + str(e), paths=paths, reached=reached)
            finally:
                self.solver.pop()
            # backtrack
            while self.prefix and not self.prefix[-1][1]:
                self.prefix.pop()
            if not self.prefix:
                break
            last = self.prefix[-1]
            last[0], last[1] = (not last[0]), False
        if reached == 0:
            return dict(verdict="INCONCLUSIVE", detail="no path satisfies the preconditions (vacuous)", paths=paths, reached=0)
        return dict(verdict="CONFIRMED", paths=paths, reached=reached)

    def _model_values(self, m):
        out = {}
        for name, sym in self.symbols.items():
            if isinstance(sym, tuple) and sym[0] == "chars":
                ln = m.eval(sym[1], model_completion=True).as_long()
                out[name] = "".join(chr(m.eval(c, model_completion=True).as_long()) for c in sym[2][:ln])
            else:
                if isinstance(sym, tuple) and sym[0] == "bv":
                    out[name] = m.eval(sym[1], model_completion=True).as_signed_long()
                    continue
                v = m.eval(sym, model_completion=True)
                if z3.is_int_value(v):
                    out[name] = v.as_long()
                elif z3.is_rational_value(v):
                    out[name] = v.numerator_as_long() / v.denominator_as_long()
                elif z3.is_fp(v):
                    out[name] = _fp_to_float(v)
                else:
                    out[name] = str(v)
        return out


def _fp_to_float(v):
    s = str(v)
    try:
        import struct
        if z3.is_fprm(v):
            return s
        bv = z3.simplify(z3.fpToIEEEBV(v))
        return struct.unpack(">d", bv.as_long().to_bytes(8, "big"))[0]
    except Exception:  # noqa
        return s


# ---------------------------------------------------------------------------------- values
def _e(x):
    return x.e if isinstance(x, (SInt, SBool, SReal, SFloat)) else x


class SBool:
    def __init__(self, e, eng):
        self.e, self.eng = e, eng

    def __bool__(self):
        return self.eng.branch(self.e)

    def __and__(self, o):
        return SBool(z3.And(self.e, _bool(o)), self.eng)

    __rand__ = __and__

    def __or__(self, o):
        return SBool(z3.Or(self.e, _bool(o)), self.eng)

    __ror__ = __or__

    def __invert__(self):
        return SBool(z3.Not(self.e), self.eng)

    def __eq__(self, o):
        return SBool(self.e == _bool(o), self.eng)

    def __hash__(self):
        return 0


def _bool(o):
    if isinstance(o, SBool):
        return o.e
    if isinstance(o, bool):
        return z3.BoolVal(o)
    return o


class SInt:
    """symbolic Python int (mathematical integer).  Deliberately NOT a subclass of int: a C-level operation that
    accepts int subclasses (float.__mul__, Fraction arithmetic, ...) would silently use a dummy machine value."""

    def __init__(self, e, eng):
        self.e, self.eng = e, eng

    def _w(self, e):
        return SInt(e, self.eng)

    def _num(self, o):
        """other operand as (kind, z3 term) or None"""
        if isinstance(o, SInt):
            return "int", o.e
        if isinstance(o, SReal):
            return "real", o.e
        if isinstance(o, SFloat):
            return "fp", o
        if isinstance(o, bool):
            return "int", z3.IntVal(int(o))
        if isinstance(o, int):
            return "int", z3.IntVal(o)
        if isinstance(o, float):
            return "float", o
        return None         # (SRat, Fraction, ...: handled by the other operand's reflected method)

    def _arith(self, o, f, rev=False):
        k = self._num(o)
        if k is None:
            from fractions import Fraction
            if isinstance(o, Fraction):
                from vf.kengine.rat import SRat
                a, b = SRat(self.e, 1, self.eng), SRat.of(o, self.eng)
                return f(b, a) if rev else f(a, b)
            if type(o).__name__ in ("SRat", "SReal", "SFloat", "DecFloat"):
                return NotImplemented           # the other operand's reflected method knows what to do
            # anything else would silently use the dummy machine value of this int subclass
            raise Unsupported(f"arithmetic of a symbolic int with {type(o).__name__}")
        if k[0] == "int":
            a, b = (k[1], self.e) if rev else (self.e, k[1])
            return self._w(f(a, b))
        if k[0] == "real":
            a, b = (k[1], z3.ToReal(self.e)) if rev else (z3.ToReal(self.e), k[1])
            return SReal(f(a, b), self.eng)
        if k[0] == "float":
            from vf.kengine.rat import SRat
            a, b = SRat(self.e, 1, self.eng), SRat.of(o, self.eng)     # the float's exact value
            return f(b, a) if rev else f(a, b)
        return NotImplemented

    def __add__(self, o):
        return self._arith(o, lambda a, b: a + b)

    def __radd__(self, o):
        return self._arith(o, lambda a, b: a + b, True)

    def __sub__(self, o):
        return self._arith(o, lambda a, b: a - b)

    def __rsub__(self, o):
        return self._arith(o, lambda a, b: a - b, True)

    def __mul__(self, o):
        return self._arith(o, lambda a, b: a * b)

    def __rmul__(self, o):
        return self._arith(o, lambda a, b: a * b, True)

    def __neg__(self):
        return self._w(-self.e)

    def __pos__(self):
        return self

    def __abs__(self):
        return self._w(z3.If(self.e >= 0, self.e, -self.e))

    def __floordiv__(self, o):
        k = self._num(o)
        if k and k[0] == "int":
            if self.eng.branch(k[1] == 0):
                raise ZeroDivisionError("integer division or modulo by zero")
            return self._w(_pyfloordiv(self.e, k[1]))
        return NotImplemented

    def __rfloordiv__(self, o):
        if isinstance(o, int):
            return SInt(z3.IntVal(int(o)), self.eng) // self
        return NotImplemented

    def __mod__(self, o):
        k = self._num(o)
        if k and k[0] == "int":
            if self.eng.branch(k[1] == 0):
                raise ZeroDivisionError("integer division or modulo by zero")
            return self._w(self.e - _pyfloordiv(self.e, k[1]) * k[1])
        return NotImplemented

    def __rmod__(self, o):
        if isinstance(o, int) and not isinstance(o, SInt):
            return SInt(z3.IntVal(int(o)), self.eng) % self
        return NotImplemented

    def __truediv__(self, o):
        from fractions import Fraction
        if isinstance(o, (int, float, Fraction)) and not isinstance(o, SInt):
            from vf.kengine.rat import SRat
            return SRat(self.e, 1, self.eng) / o          # exact rational (true division of integers)
        return SReal(z3.ToReal(self.e), self.eng) / o

    def __rtruediv__(self, o):
        return o / SReal(z3.ToReal(self.e), self.eng) if not isinstance(o, int) else \
            SReal(z3.RealVal(int(o)), self.eng) / SReal(z3.ToReal(self.e), self.eng)

    def __pow__(self, o, m=None):
        if isinstance(o, int) and not isinstance(o, SInt) and 0 <= o <= 12 and m is None:
            r = z3.IntVal(1)
            for _ in range(o):
                r = r * self.e
            return self._w(r)
        raise Unsupported("symbolic ** ")

    def __rpow__(self, o):
        raise Unsupported("** symbolic exponent")

    # bit operations through 64-bit vectors (operands must fit: side condition asserted)
    def _bv(self, o):
        k = self._num(o)
        if k is None or k[0] != "int":
            return None
        lim = 2 ** 62
        self.eng.add(z3.And(self.e > -lim, self.e < lim, k[1] > -lim, k[1] < lim))
        return z3.Int2BV(self.e, 64), z3.Int2BV(k[1], 64)

    def _bit(self, k):
        """x & 2^k for any integer x (two's complement semantics): floor(x / 2^k) mod 2, times 2^k"""
        return ((self.e / (2 ** k)) % 2) * (2 ** k)

    def __and__(self, o):
        if isinstance(o, int) and not isinstance(o, SInt):
            o = int(o)
            if o > 0 and o & (o - 1) == 0:
                return self._w(self._bit(o.bit_length() - 1))
            if o < 0 and (~o) > 0 and (~o) & ((~o) - 1) == 0:
                return self._w(self.e - self._bit((~o).bit_length() - 1))
        p = self._bv(o)
        return NotImplemented if p is None else self._w(z3.BV2Int(p[0] & p[1], True))

    __rand__ = __and__

    def __or__(self, o):
        p = self._bv(o)
        return NotImplemented if p is None else self._w(z3.BV2Int(p[0] | p[1], True))

    __ror__ = __or__

    def __xor__(self, o):
        p = self._bv(o)
        return NotImplemented if p is None else self._w(z3.BV2Int(p[0] ^ p[1], True))

    def __invert__(self):
        return self._w(-self.e - 1)

    def __lshift__(self, o):
        if isinstance(o, int) and not isinstance(o, SInt):
            return self._w(self.e * (2 ** o))
        raise Unsupported("<< symbolic")

    def __rlshift__(self, o):
        raise Unsupported("<< symbolic")

    def _cmp(self, o, f):
        k = self._num(o)
        if k is None:
            from fractions import Fraction
            if isinstance(o, Fraction):
                from vf.kengine.rat import SRat
                return f(SRat(self.e, 1, self.eng), SRat.of(o, self.eng))
            return NotImplemented
        if k[0] == "int":
            return SBool(f(self.e, k[1]), self.eng)
        if k[0] == "real":
            return SBool(f(z3.ToReal(self.e), k[1]), self.eng)
        if k[0] == "float":
            from fractions import Fraction
            fr = Fraction(o)
            return SBool(f(z3.ToReal(self.e), z3.RealVal(f"{fr.numerator}/{fr.denominator}")), self.eng)
        return NotImplemented

    def __lt__(self, o):
        return self._cmp(o, lambda a, b: a < b)

    def __le__(self, o):
        return self._cmp(o, lambda a, b: a <= b)

    def __gt__(self, o):
        return self._cmp(o, lambda a, b: a > b)

    def __ge__(self, o):
        return self._cmp(o, lambda a, b: a >= b)

    def __eq__(self, o):
        r = self._cmp(o, lambda a, b: a == b)
        return False if r is NotImplemented else r

    def __ne__(self, o):
        r = self._cmp(o, lambda a, b: a != b)
        return True if r is NotImplemented else r

    def __hash__(self):
        return 0

    def __bool__(self):
        return self.eng.branch(self.e != 0)

    def __int__(self):
        return self

    def __index__(self):
        raise Unsupported("a C function asked for the machine value of a symbolic int (__index__)")

    def __float__(self):
        raise Unsupported("float(symbolic int) through C")

    def __repr__(self):
        return f"SInt({self.e})"

    __str__ = __repr__


def _pyfloordiv(a, b):
    """Python floor division on z3 Ints: z3's `/` on Ints is Euclidean (floor for a positive divisor);
    for a negative divisor floor(a/b) = floor((-a)/(-b))"""
    return z3.If(b > 0, a / b, (-a) / (-b))


class SReal:
    """symbolic float as an exact real (assumption 'floats as reals' where used)"""

    def __init__(self, e, eng):
        self.e, self.eng = e, eng

    def _t(self, o):
        if isinstance(o, SReal):
            return o.e
        if isinstance(o, SInt):
            return z3.ToReal(o.e)
        if isinstance(o, bool):
            return z3.RealVal(int(o))
        if isinstance(o, int):
            return z3.RealVal(o)
        if isinstance(o, float):
            from fractions import Fraction
            fr = Fraction(o)
            return z3.RealVal(f"{fr.numerator}/{fr.denominator}")
        return None

    def _op(self, o, f, rev=False):
        t = self._t(o)
        if t is None:
            return NotImplemented
        return SReal(f(t, self.e) if rev else f(self.e, t), self.eng)

    def __add__(self, o):
        return self._op(o, lambda a, b: a + b)

    __radd__ = __add__

    def __sub__(self, o):
        return self._op(o, lambda a, b: a - b)

    def __rsub__(self, o):
        return self._op(o, lambda a, b: a - b, True)

    def __mul__(self, o):
        return self._op(o, lambda a, b: a * b)

    __rmul__ = __mul__

    def __truediv__(self, o):
        t = self._t(o)
        if t is None:
            return NotImplemented
        if self.eng.branch(t == 0):
            raise ZeroDivisionError("float division by zero")
        return SReal(self.e / t, self.eng)

    def __rtruediv__(self, o):
        t = self._t(o)
        if t is None:
            return NotImplemented
        if self.eng.branch(self.e == 0):
            raise ZeroDivisionError("float division by zero")
        return SReal(t / self.e, self.eng)

    def __mod__(self, o):
        t = self._t(o)
        if t is None:
            return NotImplemented
        if self.eng.branch(t == 0):
            raise ZeroDivisionError("float modulo")
        q = z3.ToReal(z3.ToInt(self.e / t))          # floor of the real quotient
        return SReal(self.e - q * t, self.eng)

    def __rmod__(self, o):
        t = self._t(o)
        if t is None:
            return NotImplemented
        return SReal(t, self.eng) % self

    def __neg__(self):
        return SReal(-self.e, self.eng)

    def __abs__(self):
        return SReal(z3.If(self.e >= 0, self.e, -self.e), self.eng)

    def _cmp(self, o, f):
        t = self._t(o)
        if t is None:
            return NotImplemented
        return SBool(f(self.e, t), self.eng)

    def __lt__(self, o):
        return self._cmp(o, lambda a, b: a < b)

    def __le__(self, o):
        return self._cmp(o, lambda a, b: a <= b)

    def __gt__(self, o):
        return self._cmp(o, lambda a, b: a > b)

    def __ge__(self, o):
        return self._cmp(o, lambda a, b: a >= b)

    def __eq__(self, o):
        r = self._cmp(o, lambda a, b: a == b)
        return False if r is NotImplemented else r

    def __ne__(self, o):
        r = self._cmp(o, lambda a, b: a != b)
        return True if r is NotImplemented else r

    def __hash__(self):
        return 0

    def __bool__(self):
        return self.eng.branch(self.e != 0)

    def floor(self):
        return SInt(z3.ToInt(self.e), self.eng)

    def __floor__(self):
        return self.floor()

    def __ceil__(self):
        return SInt(-z3.ToInt(-self.e), self.eng)

    def __trunc__(self):
        return SInt(z3.If(self.e >= 0, z3.ToInt(self.e), -z3.ToInt(-self.e)), self.eng)

    __int__ = __trunc__

    def __repr__(self):
        return f"SReal({self.e})"


RNE = z3.RNE()


class SFloat:
    """symbolic binary64 float (IEEE semantics, round-to-nearest-even)"""

    def __init__(self, e, eng):
        self.e, self.eng = e, eng

    def _t(self, o):
        if isinstance(o, SFloat):
            return o.e
        if isinstance(o, bool):
            return z3.FPVal(float(o), z3.Float64())
        if isinstance(o, (int, float)) and not isinstance(o, SInt):
            return z3.FPVal(float(o), z3.Float64())
        if isinstance(o, SInt):
            return z3.fpToFP(RNE, z3.ToReal(o.e), z3.Float64())
        return None

    def _op(self, o, f, rev=False):
        t = self._t(o)
        if t is None:
            return NotImplemented
        return SFloat(f(t, self.e) if rev else f(self.e, t), self.eng)

    def __add__(self, o):
        return self._op(o, lambda a, b: z3.fpAdd(RNE, a, b))

    __radd__ = __add__

    def __sub__(self, o):
        return self._op(o, lambda a, b: z3.fpSub(RNE, a, b))

    def __rsub__(self, o):
        return self._op(o, lambda a, b: z3.fpSub(RNE, a, b), True)

    def __mul__(self, o):
        return self._op(o, lambda a, b: z3.fpMul(RNE, a, b))

    __rmul__ = __mul__

    def __truediv__(self, o):
        t = self._t(o)
        if t is None:
            return NotImplemented
        if self.eng.branch(z3.fpIsZero(t)):
            raise ZeroDivisionError("float division by zero")
        return SFloat(z3.fpDiv(RNE, self.e, t), self.eng)

    def __rtruediv__(self, o):
        t = self._t(o)
        if t is None:
            return NotImplemented
        if self.eng.branch(z3.fpIsZero(self.e)):
            raise ZeroDivisionError("float division by zero")
        return SFloat(z3.fpDiv(RNE, t, self.e), self.eng)

    def __neg__(self):
        return SFloat(z3.fpNeg(self.e), self.eng)

    def __abs__(self):
        return SFloat(z3.fpAbs(self.e), self.eng)

    def _cmp(self, o, f):
        t = self._t(o)
        if t is None:
            return NotImplemented
        return SBool(f(self.e, t), self.eng)

    def __lt__(self, o):
        return self._cmp(o, z3.fpLT)

    def __le__(self, o):
        return self._cmp(o, z3.fpLEQ)

    def __gt__(self, o):
        return self._cmp(o, z3.fpGT)

    def __ge__(self, o):
        return self._cmp(o, z3.fpGEQ)

    def __eq__(self, o):
        r = self._cmp(o, z3.fpEQ)
        return False if r is NotImplemented else r

    def __ne__(self, o):
        r = self._cmp(o, z3.fpNEQ)
        return True if r is NotImplemented else r

    def __hash__(self):
        return 0

    def __bool__(self):
        return self.eng.branch(z3.Not(z3.fpIsZero(self.e)))

    def __floor__(self):
        r = z3.fpRoundToIntegral(z3.RTN(), self.e)
        if getattr(self.eng, "fp_int_as_float", False):
            return SFloat(r, self.eng)
        return SInt(z3.ToInt(z3.fpToReal(r)), self.eng)

    def __ceil__(self):
        r = z3.fpRoundToIntegral(z3.RTP(), self.e)
        if getattr(self.eng, "fp_int_as_float", False):
            return SFloat(r, self.eng)
        return SInt(z3.ToInt(z3.fpToReal(r)), self.eng)

    def __mod__(self, o):
        """x % n for an integral, non-negative x below 2^31 and a concrete positive int n (through 32-bit vectors)"""
        if isinstance(o, int) and not isinstance(o, bool) and o > 0 and getattr(self.eng, "fp_int_as_float", False):
            b = z3.fpToSBV(z3.RTZ(), self.e, z3.BitVecSort(32))
            return SFloat(z3.fpSignedToFP(RNE, z3.URem(b, z3.BitVecVal(o, 32)), z3.Float64()), self.eng)
        raise Unsupported("float % on binary64")

    def __round__(self, nd=None):
        if nd in (None, 0):
            return SFloat(z3.fpRoundToIntegral(RNE, self.e), self.eng)
        raise Unsupported("round(binary64, digits)")

    def __trunc__(self):
        r = z3.fpRoundToIntegral(z3.RTZ(), self.e)
        if getattr(self.eng, "fp_int_as_float", False):
            return SFloat(r, self.eng)       # an integer below 2^53 kept in its (exact) binary64 form
        return SInt(z3.ToInt(z3.fpToReal(r)), self.eng)

    def __int__(self):
        return self.__trunc__()

    def __repr__(self):
        return f"SFloat({self.e})"
