"""Regenerate MANIFEST.json from the table below (python3 vf/mkmanifest.py)."""
import json
import os

ROOT = os.path.dirname(os.path.dirname(os.path.abspath(__file__)))

# property -> (level, technique, level text, level note, design ref)
CLAIMED = {
    "C10": ("model_checking",
            "CrossHair symbolic execution of the real fixup closure, z3 decides every path (bounded model checking)",
            "Every operator law is an assertion over symbolic operands (int|bool|None|ASCII text len<=2|real-valued float|error code) "
            "executed through the real build_operator_operand_fixup closure; CONFIRMED means the path tree was exhausted and the "
            "negated assertion is unsat on every path, so the law holds for all operands inside the bounds, not for a sample.",
            "Bounds: ints |v|<=99, text len<=2 ASCII (arithmetic on text: concrete pool), floats as exact reals |x|<=1e6, pow with concrete exponent pool; "
            "trusted: z3, CrossHair proxies, plugin models in vf/chplugin.py.",
            "DESIGN.md 4/C10"),
    "C14": ("model_checking",
            "CrossHair symbolic execution of the real aggregate functions and compiled SUBTOTAL, z3 decides every path (bounded model checking)",
            "Aggregation laws (numeric-only, first error, permutation/reshape invariance, additivity, AVERAGE=SUM/COUNT, SUBTOTAL dispatch, SUMPRODUCT) "
            "are assertions over rectangles whose cells are solver-chosen classes {number, logical, blank, text, error} with symbolic values, "
            "run through the real _numerics/sum_/average/count/max_/min_/sumproduct and a really compiled =SUBTOTAL(n, range); exhausted path tree = holds for all cell contents in the bound.",
            "Bounds: rectangles up to 1x3 (quick) / 2x2, 3x1, 1x4 (thorough), ints |v|<=99, text from a 2-word pool plus one symbolic-text obligation, two error codes; floats as reals.",
            "DESIGN.md 4/C14"),
    "C15": ("model_checking",
            "CrossHair symbolic execution of criteria_parser/handle_ifs and the ...IF(S) functions against hand-written reference predicates, z3 decides every path",
            "For each criterion of a concrete 20-entry grammar pool the real COUNTIF(S)/SUMIF(S)/AVERAGEIF(S)/MAXIFS/MINIFS are executed on ranges whose cell classes and values, "
            "sum ranges and numeric criteria are symbolic, and compared with a reference selection; also IFS(1)=IF, commutation, =x/<>x partition, AVERAGEIFS=SUMIFS/COUNTIFS, never-raises.",
            "Bounds: criteria text concrete (regex), ranges up to 1x3 (quick) / 2x2, 1x4 (thorough); logical cells vs numeric criteria and numeric text vs <>number outside the claim; one known finding (numeric text counted by both =x and <>x).",
            "DESIGN.md 4/C15"),
    "C16": ("model_checking",
            "CrossHair symbolic execution of _match/match/vlookup/hlookup/lookup/index against linear-scan references, z3 decides every path",
            "MATCH types 0/1/-1, VLOOKUP/HLOOKUP (exact and approximate), vector and array LOOKUP and INDEX run for real on vectors/tables of enumerated shape with symbolic "
            "elements (ints, ASCII text, logicals, blanks) and symbolic lookup value/indices; sortedness is a precondition written against an independent order.",
            "Bounds: vectors len<=3 ints / <=2 mixed (quick), <=6 ints / <=4 mixed (thorough), tables <=3x3, text len<=1, wildcard patterns from a concrete pool.",
            "DESIGN.md 4/C16"),
    "C20": ("model_checking",
            "CrossHair symbolic execution of the wrapped text functions over symbolic ASCII strings, z3 decides every path",
            "The slicing/search/substitution identities of the statement are assertions over symbolic text, positions and counts run through the apply_meta-wrapped "
            "LEFT/MID/RIGHT/REPLACE/FIND/SUBSTITUTE/CONCATENATE/CONCAT/TRIM/UPPER/LOWER/EXACT/LEN that compiled formulas call.",
            "Bounds: ASCII text len<=4 (quick) / 5..6 (thorough), positions -1..len+2; TRIM over {' ','a'}* up to length 4; TEXT(k/10^j, fmt): |k|<=9999, j 0..3, 18 concrete single-section formats of the 0 # , . % grammar through the real "
            "text()/TextFormat renderer against an integer reference (Decimal and format() as plugin models); other formats, dates and binary64 artefacts of x are outside the claim.",
            "DESIGN.md 4/C20"),
    "C01": ("model_checking",
            "CrossHair symbolic execution of the real ExcelCompiler over enumerated set_value/evaluate history skeletons with symbolic written values, z3 decides every path",
            "For each template x configuration (no-data workbook, stored-results wrapper, yml/json/pkl reload) x history skeleton the real set_value/_reset/_evaluate/_evaluate_range/"
            "_gen_graph code runs on solver-chosen values (number, logical, blank, text, close floats) and every cell is compared with a full recompute by an independent model; "
            "an exhausted path tree means no written value of the domain can leave a stale cell for that history shape.",
            "Bounds: 5 templates (quick) / 9 (thorough), histories of <=2 (quick) / <=3 writes, ints |v|<=99, texts {'x','7',''}; oracle = independent model with every formula/range value dropped and inputs written directly (same formula evaluator).",
            "DESIGN.md 4/C01"),
    "C17": ("model_checking",
            "CrossHair symbolic execution of the real date functions with the serial day as one symbolic integer over 0..2958465, z3 decides every path",
            "DATE(date_from_int(n)) = n and the wrapped YEAR/MONTH/DAY = date_from_int for every serial day, WEEKDAY period 7, DATE carry against a Gregorian-rule oracle for all "
            "(y, m, d) with m in -40..60 and d in 1..60, #NUM! instead of exceptions at the ends of the calendar, YEARFRAC symmetry (bases 2, 3).",
            "Two DATE calls in one process history. Bounds and gaps: d <= 0 is a recorded known finding; thorough tier: civil-date oracle on 1900-1931, exact month lengths in windows around 1900/2000/2100/2400/9999, "
            "DATE carrying -1300..1300 months, YEARFRAC bases 0/4 in windows; EDATE/EOMONTH month arithmetic away from 1900 and YEARFRAC basis 1 are not decided (no verdict within budget); "
            "HOUR/MINUTE/SECOND on Engine K in binary64 for whole seconds (10-minute slices; all of the day in the thorough tier); trusted: CrossHair's datetime model, calendar.monthrange model.",
            "DESIGN.md 4/C17"),
    "C05": ("model_checking",
            "CrossHair symbolic execution of the real lazy graph construction and evaluation over enumerated first-evaluation orders and access paths with symbolic workbook constants",
            "The workbook's constants are solver variables (substituting wrapper); for every enumerated order of first evaluation and every access path (cell, enclosing ranges, "
            "unbounded column/row ranges on each sheet, list/tuple/generator, sheet-less address, repeat) the real _gen_graph/_make_cells/_evaluate_range code must yield the full-recompute value.",
            "Bounds: 7 templates (quick) / 10, up to 4 orders each (quick) / all permutations of <=4 formula cells plus 24 sampled (thorough); constants {number, logical, blank}, ints |v|<=99.",
            "DESIGN.md 4/C05"),
    "C08": ("model_checking",
            "trim_graph executed concretely per enumerated (template, inputs, outputs); CrossHair then runs the real set_value/evaluate of the trimmed (and reloaded) model on symbolic input assignments",
            "Every output of the trimmed model, directly and after yml/pkl/json round trips, is compared with the untrimmed full recompute for all values of two successive input assignments; "
            "input sets include leaf cells, buried formula cells and ranges, output sets single cells, pairs, ranges and output=input.",
            "Bounds: 20 enumerated trim cases over 7 templates; inputs {number, logical, blank}, ints |v|<=99; second assignment limited to one or two cells.",
            "DESIGN.md 4/C08"),
    "C06": ("model_checking",
            "CrossHair symbolic execution of the real iterative evaluator (pass loop, tracker, cycle cells) with symbolic inputs, iteration count and tolerance; z3 (linear real arithmetic) decides every path",
            "Acyclic templates with cycles enabled are driven through C01-style histories and compared with the full recompute (first use included); linear circular systems with ||A||inf = 1/2 "
            "(one through a SUM range) are run with symbolic b, iterations and tolerance: passes <= iterations, early stop implies the last step <= tolerance(1+1e-5), result within q/(1-q) of it from the "
            "exact fixed point; explicit per-call settings do not leak into default calls.",
            "Bounds: b int |b|<=99, iterations 1..5, tolerance real 0.01..50 (1e-7.. on the fast system), floats as exact reals (binary64 rounding against the tolerance is outside the claim).",
            "DESIGN.md 4/C06"),
    "C09": ("model_checking",
            "CrossHair symbolic execution of the real evaluation/error path with a fault-injecting plugin function whose failure condition and the cell values are symbolic",
            "For failing sites leaf / mid-chain / range member / CSE member / unknown function / formula with a captured operator error, in plain and iterative mode: the failing cell and its "
            "dependant raise pycel's own exceptions on every retry, unrelated cells equal the full recompute, and after overwriting the failing cell the model equals a fresh one.",
            "Bounds: 6 templates, threshold/k-th-call failure conditions, exceptions ValueError/NameError(/ZeroDivisionError/KeyError), ints |v|<=99; known finding: overwrite-repair is ineffective in iterative mode.",
            "DESIGN.md 4/C09"),
    "C12": ("model_checking",
            "CrossHair symbolic execution of the real validate_calcs/close_enough over a stored-results wrapper whose one stored result is a symbolic alteration",
            "Each formula cell of each template in turn gets its stored result replaced by s+d (d symbolic), a text, a logical, an error or blank; with default or symbolic tolerance and default or "
            "explicit outputs the report must be {} without alteration, and otherwise name the cell with (stored, recomputed) and only dependants of it besides; unevaluable cells are listed.",
            "Bounds: 15 (template, cell, outputs) cases, |d|<=50, tolerance default or int 1..10; the stored-results workbook is two in-memory openpyxl workbooks behind the real ExcelOpxWrapper.",
            "DESIGN.md 4/C12"),
    "C03": ("model_checking",
            "CrossHair symbolic execution of original vs reloaded (yml/json/pkl, plain/iterative, kept/fresh module state) models over enumerated histories; concrete fixture self-checks for the file-level clauses",
            "Solver-decided: the reloaded model reacts to every enumerated set_value/evaluate history exactly as the model that was saved, for all written values in the domain, also when the "
            "thread-local module state is re-created before loading. Not solver-decidable (ruamel/json/pickle/file I/O have no symbolic path): determinism/idempotence of saving, survival of settings, "
            "a pool of awkward constants and pickle refresh are concrete fixture self-checks, reported separately in the evidence.",
            "Bounds: 5 templates (quick), histories of <=2 writes, ints |v|<=99; files are produced before the analysis; one known finding (non-BMP text through json).",
            "DESIGN.md 4/C03"),
    "C04": ("model_checking",
            "CrossHair symbolic execution of formula evaluation with instrumented read paths (_C_/_R_), checked against needed_addresses and the dependency graph for all cell values and selector arguments",
            "Every run-time read made while evaluating each enumerated reference form is recorded (instance-level wrappers, no source hook) and must be a declared precedent or lie inside a declared "
            "range, with a graph path precedent -> reader; the ancestors of the formula must contain every cell read. Values and the INDEX/CHOOSE/IF selectors are symbolic, so all value-dependent read paths are covered.",
            "Bounds: 16 formula cells of one two-sheet template plus 5 set_value-then-evaluate variants; ints |v|<=99, selectors 0..3; OFFSET/INDIRECT excluded by the statement.",
            "DESIGN.md 4/C04"),
    "C13": ("model_checking",
            "CrossHair symbolic execution of array_fixup / cse_array_wrapper / fit_to_range and of really compiled CSE templates over enumerated shapes with symbolic elements",
            "Operator lifting (scalar/row/column/matrix broadcasting), function lifting, the complete result-shape x target-shape case analysis of fit_to_range and five end-to-end array-formula "
            "workbooks (member cells and the range, either evaluated first) are asserted position by position against the scalar application for all element values.",
            "Bounds: shapes up to 2x3/3x3 (quick) and 4x4 (thorough, fit_to_range), elements {number, logical, blank, text, error}, ints |v|<=9; numpy never coerces CrossHair proxies, so array-wide "
            "dtype coercion is probed with concrete mixed-type arrays against a symbolic scalar.",
            "DESIGN.md 4/C13"),
    "C02": ("translation_validation",
            "translation validation: real tokenizer/RPN/AST/emit/compile pipeline per enumerated formula, compiled lambda executed symbolically (CrossHair+z3) against a reference-grammar term, operators uninterpreted or real",
            "Each enumerated formula text is compiled by the real pipeline; with the operator semantics replaced by a free constructor the compiled lambda must denote the same term as the reference "
            "parse for symbolic leaves (decides precedence, associativity, parentheses, unary minus, postfix %), and with the real fixup the same value; text literals: OperandNode.emit on a symbolic "
            "text token decoded by a validated model of Python string escapes must give back exactly the characters.",
            "Bounds: all 144 two-operator strings, unary/postfix variants, parenthesisations, whitespace/function-case renderings (quick); all 1728 three-operator strings and seed-sampled depth 4 (thorough); "
            "text len<=3 over all Unicode; the oracle is vf/refgrammar.py.",
            "DESIGN.md 4/C02"),
    "C18": ("model_checking",
            "astz3 (vf/kengine): the real code objects of _base2dec/_dec2base/_base2base executed on z3-backed integers, digit strings and arbitrary ASCII text; z3 decides each path",
            "Round trip, two's complement rendering, places padding/#NUM!, direct = composition through decimal, and rejection of every text outside the alphabet are assertions over one "
            "symbolic integer covering the whole range (+3 beyond each end), symbolic places and an 11-character text whose every character is a solver choice; only leaf built-ins are models.",
            "Trusted: the int(text, base) grammar model (validated against CPython on every string up to length 3/4 over a critical alphabet), Numeral model of bin/oct/hex/str, single-bit mask arithmetic; "
            "ints are mathematical integers (Python semantics).",
            "DESIGN.md 4/C18"),
    "C19": ("model_checking",
            "astz3 (vf/kengine): the real code objects of the rounding family executed on exact rationals k/10^j (LIA) and on binary64 (z3 FP) where float scaling matters; z3 decides each path",
            "ROUND/ROUNDUP/ROUNDDOWN/TRUNC against an independent nearest/toward-zero/away-from-zero decimal oracle for all |k|<=10^6 per (j, d); INT/MOD sign, range and reconstruction; "
            "CEILING/FLOOR(.MATH/.PRECISE) adjacency and sign rules for a pool of significances; EVEN/ODD; TRUNC and ROUNDUP/ROUNDDOWN additionally on the actual double nearest k/10^j.",
            "Bounds: j 0..3 (quick) / 0..6, d -2..2 (quick) / -6..6; Decimal/quantize, repr of decimal-born floats, builtin round, math.floor/ceil/copysign/fmod are models (validated on concrete rows); "
            "INT/MOD/CEILING/FLOOR/EVEN/ODD in exact arithmetic (binary64 quotient artefacts outside the claim).",
            "DESIGN.md 4/C19"),
    "C07": ("model_checking",
            "CrossHair symbolic execution of a sequentialisation of two workloads (thread identity as a harness variable, threading.local replaced by an identity-keyed model); counterexamples replayed on real threads",
            "For every pair of workload kinds {iterative, CSE array, plain} the second workload runs to completion inside the j-th cell evaluation of the first (j, inputs, iteration counts and "
            "tolerances symbolic) and both must obtain exactly their solo results; load/evaluate/set_value/trim_graph must work on an identity whose thread-local namespace is empty.",
            "Bounds: j 1..4, ints |v|<=3, iterations 1..2(3); NOT covered: schedules in which the second workload is suspended while the first continues (needs coroutines - e.g. a shared context *stack* "
            "is invisible to nested schedules), preemption inside library functions, races on _Cell.ctr.",
            "DESIGN.md 4/C07"),
    "C11": ("model_checking",
            "astz3 (vf/kengine): the real code objects of the address arithmetic (_union_instersection, __contains__, size, inc_col/inc_row/address_at_offset, r1c1_boundaries) on records with z3 integer coordinates over the whole sheet",
            "Intersection = exactly the common cells (pointwise for an arbitrary cell), #NULL! iff disjoint, union = minimal bounding rectangle, commutativity/idempotence (with and without a sheet on either operand), "
            "associativity on triples, contains/size, offset wrap-around and relative R1C1 offsets from any anchor are decided over the full coordinate space in linear integer arithmetic.",
            "The address constructors are replaced by coordinate records. The text round trip (print/parse, quoted sheet names, $ forms, A1/tuple/R1C1 agreement) has no symbolic path (openpyxl regexes, 18 278-entry letter tables): "
            "it is covered only by concrete fixture self-checks at boundary columns/rows x a sheet-name pool, reported separately.",
            "DESIGN.md 4/C11"),
}

NOT_YET = "check not built yet in this round (machinery under construction); see DESIGN.md section 4"


def main():
    props = [json.loads(l)["id"] for l in open(os.path.join(ROOT, "properties.jsonl"))]
    na_path = os.path.join(ROOT, "vf", "not_applicable.json")
    na_reasons = json.load(open(na_path)) if os.path.exists(na_path) else {}
    checks, na = [], []
    for p in props:
        if p in CLAIMED:
            level, tech, text, note, ref = CLAIMED[p]
            checks.append({
                "property_id": p,
                "quick_cmd": f"./check {p} --tier quick",
                "thorough_cmd": f"./check {p} --tier thorough",
                "evidence_file": f"evidence/{p}.json",
                "replay_cmd_template": f"./check {p} --replay {{path}}",
                "engine": "vf",
                "level_claimed": {"category": level, "text": text, "design_ref": ref},
                "level_note": note,
                "technique": tech,
            })
        else:
            na.append({"property_id": p, "reason": na_reasons.get(p, NOT_YET)})
    m = {
        "version": 1,
        "setup_cmd": "./setup.sh",
        "hooks": {"guard": "PYCEL_VERIF", "enable": "no source hooks: checks import /repo/src as is (PYCEL_VERIF=1 is exported but unused by pycel)",
                  "baseline_off_cmd": "cd /repo && /venv/bin/python -m pytest -ra -q -p no:cacheprovider --timeout=900 --continue-on-collection-errors",
                  "source_commits": [], "add_only": True},
        "engines": [
            {"name": "vf", "path": "vf/", "serves_properties": sorted(CLAIMED),
             "kind_free_text": "solver-based checking of the real code: CrossHair 0.0.110 (symbolic execution of pycel's Python with z3) plus "
                               "a plugin of C-boundary models (vf/chplugin.py); astz3 (vf/kengine) AST->z3 interpreter for kernels CrossHair cannot keep symbolic"},
        ],
        "checks": checks,
        "not_applicable": na,
        "notes": "Every counterexample is replayed on the real code in plain CPython before VIOLATION is printed; INCONCLUSIVE obligations "
                 "(timeout/unknown/non-reproducing) are printed and counted, never reported as success or violation. known_findings.json lists "
                 "recorded and fixed defects.",
    }
    json.dump(m, open(os.path.join(ROOT, "MANIFEST.json"), "w"), indent=1)
    print("claimed", sorted(CLAIMED), "not_applicable", [x["property_id"] for x in na])


if __name__ == "__main__":
    main()
