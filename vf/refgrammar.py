"""Reference Excel operator grammar (the C02 oracle), written from the statement:
negation binds tightest, then %, then ^, then * /, then + -, then &, then comparisons;
all binary operators left-associative; parentheses override; function calls take expression lists.

parse(text) -> term:  ('leaf', name) | ('num', value) | ('str', s) | ('bool', b) | ('err', code)
                    | (opname, left, right) | ('USub', x) | ('call', NAME, [args])
opnames are the Python AST operator class names pycel's fixup receives.
"""
import re

BINARY = {
    "=": ("Eq", 1), "<>": ("NotEq", 1), "<": ("Lt", 1), "<=": ("LtE", 1), ">": ("Gt", 1), ">=": ("GtE", 1),
    "&": ("BitAnd", 2), "+": ("Add", 3), "-": ("Sub", 3), "*": ("Mult", 4), "/": ("Div", 4), "^": ("Pow", 5),
}
TOKEN = re.compile(r'\s*(?:(?P<num>\d+(?:\.\d+)?)|(?P<str>"(?:[^"]|"")*")|(?P<err>#[A-Z/0!?]+)|(?P<name>[A-Za-z_][A-Za-z0-9_.]*)'
                   r'|(?P<op><>|<=|>=|[=<>&+\-*/^%(),]))')


def tokenize(text):
    assert text.startswith("=")
    pos, out = 1, []
    while pos < len(text):
        m = TOKEN.match(text, pos)
        if not m or m.end() == pos:
            if text[pos:].strip() == "":
                break
            raise ValueError(f"cannot tokenize {text[pos:]!r}")
        pos = m.end()
        kind = m.lastgroup
        out.append((kind, m.group(kind)))
    return out


class _P:
    def __init__(self, toks):
        self.t, self.i = toks, 0

    def peek(self):
        return self.t[self.i] if self.i < len(self.t) else (None, None)

    def take(self):
        tok = self.peek()
        self.i += 1
        return tok

    def expr(self, minprec=1):
        left = self.unary()
        while True:
            kind, val = self.peek()
            if kind == "op" and val in BINARY and BINARY[val][1] >= minprec:
                name, prec = BINARY[val]
                self.take()
                right = self.expr(prec + 1)          # left-associative
                left = (name, left, right)
            else:
                return left

    def unary(self):
        kind, val = self.peek()
        if kind == "op" and val == "-":
            self.take()
            return self.postfix(("USub", self.unary_operand()))
        if kind == "op" and val == "+":
            self.take()
            return self.unary()                      # unary plus is dropped
        return self.postfix(self.primary())

    def unary_operand(self):
        kind, val = self.peek()
        if kind == "op" and val == "-":
            self.take()
            return ("USub", self.unary_operand())
        if kind == "op" and val == "+":
            self.take()
            return self.unary_operand()
        return self.primary()

    def postfix(self, node):
        while self.peek() == ("op", "%"):
            self.take()
            node = ("Div", node, ("num", 100))
        return node

    def primary(self):
        kind, val = self.take()
        if kind == "num":
            return ("num", float(val) if "." in val else int(val))
        if kind == "str":
            return ("str", val[1:-1].replace('""', '"'))
        if kind == "err":
            return ("err", val)
        if kind == "op" and val == "(":
            e = self.expr()
            assert self.take() == ("op", ")")
            return e
        if kind == "name":
            if self.peek() == ("op", "("):
                self.take()
                args = []
                if self.peek() != ("op", ")"):
                    args.append(self.expr())
                    while self.peek() == ("op", ","):
                        self.take()
                        args.append(self.expr())
                assert self.take() == ("op", ")")
                return ("call", val.upper(), args)
            if val.upper() in ("TRUE", "FALSE"):
                return ("bool", val.upper() == "TRUE")
            return ("leaf", val.upper())
        raise ValueError(f"unexpected token {kind} {val}")


def parse(text):
    p = _P(tokenize(text))
    e = p.expr()
    assert p.i == len(p.t), f"trailing tokens in {text}"
    return e


def evaluate(term, env, apply_op, call):
    """evaluate a reference term: env maps leaf names to values; apply_op(left, opname, right) is the operator
    semantics (pycel's fixup, or a free constructor); call(NAME, args) applies a function"""
    k = term[0]
    if k == "leaf":
        return env[term[1]]
    if k in ("num", "str", "bool", "err"):
        return term[1]
    if k == "USub":
        return apply_op(None, "USub", evaluate(term[1], env, apply_op, call))
    if k == "call":
        return call(term[1], [evaluate(a, env, apply_op, call) for a in term[2]])
    return apply_op(evaluate(term[1], env, apply_op, call), k, evaluate(term[2], env, apply_op, call))
