"""Obligation records shared by runner, workers and property modules."""
import ast
import dataclasses
import importlib
import inspect
from dataclasses import dataclass, field
from typing import Any, List, Optional, Tuple


@dataclass
class Obligation:
    prop: str                    # property id, e.g. "C10"
    oid: str                     # unique id inside the property
    module: str                  # python module holding the body function
    func: str                    # body function name
    params: Tuple[Any, ...] = () # concrete leading arguments (repr-able literals)
    timeout: float = 30.0        # per-condition CPU budget (s)
    float_mode: Optional[str] = None   # 'real' or None
    engine: str = "X"            # "X" (CrossHair) or "K" (astz3)
    known: Optional[str] = None  # id in known_findings.json if this obligation asserts *inside* a known region
    group: str = ""              # free-text family name (evidence)
    desc: str = ""               # what is asserted (evidence)
    per_path_timeout: Optional[float] = None
    sig: Optional[str] = None    # override of the symbolic signature, e.g. "a: int, b: str"

    def to_json(self):
        d = dataclasses.asdict(self)
        d["params"] = repr(tuple(self.params))
        return d

    @staticmethod
    def from_json(d):
        d = dict(d)
        d["params"] = ast.literal_eval(d["params"])
        return Obligation(**d)


def symbolic_signature(module: str, func: str, nparams: int, override=None) -> Tuple[str, List[str]]:
    """Source text of the symbolic part of the body function's signature."""
    if override is not None:
        tree = ast.parse(f"def f({override}): pass").body[0]
        return override, [a.arg for a in tree.args.args]
    mod = importlib.import_module(module)
    fn = getattr(mod, func)
    sig = inspect.signature(fn)
    names, parts = [], []
    for i, (name, p) in enumerate(sig.parameters.items()):
        if i < nparams:
            continue
        ann = p.annotation
        if ann is inspect.Parameter.empty:
            raise TypeError(f"{module}.{func}: symbolic parameter {name} lacks an annotation")
        if isinstance(ann, str):
            anns = ann
        elif getattr(ann, "__module__", "") == "typing" or hasattr(ann, "__origin__"):
            anns = str(ann).replace("typing.", "").replace("NoneType", "None")
        elif ann is type(None):
            anns = "None"
        else:
            anns = ann.__name__
        names.append(name)
        parts.append(f"{name}: {anns}")
    return ", ".join(parts), names
