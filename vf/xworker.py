"""Engine X worker: decide a batch of obligations with CrossHair on the real code.

usage: python -m vf.xworker <spec.json> <out.jsonl> <workdir>
For every obligation the worker writes a wrapper module with two contract
functions (main: body(...) is not False; twin: body(...) is None), runs
CrossHair's call-tree analysis on each and appends one JSON line.
"""
import ast
import collections
import importlib
import json
import logging
import os
import sys
import time
import traceback

logging.disable(logging.CRITICAL)


def _wrapper_source(ob, sig, names):
    call = f"_M.{ob.func}(*_P, {', '.join(n + '=' + n for n in names)})" if names else f"_M.{ob.func}(*_P)"
    return (
        "from typing import *\n"
        f"import {ob.module} as _M\n"
        f"_P = {tuple(ob.params)!r}\n"
        f"def main({sig}) -> bool:\n"
        "    '''\n    post: _\n    '''\n"
        f"    return {call} is not False\n"
        f"def twin({sig}) -> bool:\n"
        "    '''\n    post: _\n    '''\n"
        f"    return {call} is None\n"
    )


def _analyze(fn, timeout, per_path):
    from crosshair.core_and_libs import analyze_function, run_checkables
    from crosshair.options import AnalysisOptionSet, AnalysisKind
    from crosshair.condition_parser import condition_parser
    from crosshair.core import analyze_calltree, DEFAULT_OPTIONS
    from crosshair.fnutil import FunctionInfo
    from crosshair.statespace import VerificationStatus, MessageType
    stats = collections.Counter()
    opts = DEFAULT_OPTIONS.overlay(
        AnalysisOptionSet(
            analysis_kind=(AnalysisKind.PEP316,),
            per_condition_timeout=timeout,
            per_path_timeout=per_path if per_path else max(5.0, timeout / 3),
            max_uninteresting_iterations=sys.maxsize,
            report_all=True,
            stats=stats,
        ))
    with condition_parser(opts.analysis_kind) as parser:
        conditions = parser.get_fn_conditions(FunctionInfo.from_fn(fn))
    assert conditions is not None and not list(conditions.syntax_messages()), "bad wrapper"
    opts.deadline = time.process_time() + timeout
    opts.stats = stats
    # analyze_calltree is what ConditionCheckable.analyze runs per postcondition
    from crosshair.core import Conditions
    import dataclasses
    cond = conditions
    with condition_parser(opts.analysis_kind):
        analysis = analyze_calltree(opts, cond)
    status = analysis.verification_status
    msgs = [(m.state.name, m.message) for m in analysis.messages]
    return status.name, msgs, stats.get("num_paths", 0), analysis.num_confirmed_paths


def _parse_cex(message, names):
    """'false when calling main(a=1, b=2) (which returns False)' -> source of args dict."""
    key = "when calling "
    i = message.find(key)
    if i < 0:
        return None
    text = message[i + len(key):]
    # cut at the matching close paren of the call
    depth, end, instr, esc = 0, None, None, False
    for j, ch in enumerate(text):
        if instr:
            if esc:
                esc = False
            elif ch == "\\":
                esc = True
            elif ch == instr:
                instr = None
            continue
        if ch in "'\"":
            instr = ch
        elif ch in "([{":
            depth += 1
        elif ch in ")]}":
            depth -= 1
            if depth == 0:
                end = j + 1
                break
    if end is None:
        return None
    call = text[:end]
    try:
        node = ast.parse(call, mode="eval").body
        assert isinstance(node, ast.Call)
        out = {}
        for n, a in zip(names, node.args):
            out[n] = ast.unparse(a)
        for kw in node.keywords:
            out[kw.arg] = ast.unparse(kw.value)
        return out
    except Exception:
        return None


def run_one(ob, workdir, idx):
    from vf import chplugin
    from vf.obl import symbolic_signature
    t0 = time.time()
    c0, s0 = chplugin.STATS["z3_checks"], chplugin.STATS["z3_seconds"]
    res = {"oid": ob.oid, "engine": "X"}
    try:
        sig, names = symbolic_signature(ob.module, ob.func, len(ob.params), ob.sig)
        modname = f"vfwrap_{os.getpid()}_{idx}"
        path = os.path.join(workdir, modname + ".py")
        with open(path, "w") as f:
            f.write(_wrapper_source(ob, sig, names))
        importlib.invalidate_caches()
        mod = importlib.import_module(modname)
        chplugin.set_float_mode(ob.float_mode)
        chplugin.FLAGS.clear()
        # twin first: reachability witness
        tstat, tmsgs, tpaths, _ = _analyze(mod.twin, max(5.0, ob.timeout / 3), ob.per_path_timeout)
        twin = "REFUTED" if tstat == "REFUTED" and any(s in ("POST_FAIL", "EXEC_ERR") for s, _ in tmsgs) else tstat
        res["twin"] = twin
        res["twin_paths"] = tpaths
        stat, msgs, paths, confirmed_paths = _analyze(mod.main, ob.timeout, ob.per_path_timeout)
        res["paths"] = paths
        res["confirmed_paths"] = confirmed_paths
        res["messages"] = msgs[:3]
        if stat == "CONFIRMED":
            if twin == "REFUTED":
                res["verdict"] = "CONFIRMED"
            else:
                res["verdict"] = "INCONCLUSIVE"
                res["detail"] = f"vacuity twin not refuted ({twin})"
        elif stat == "REFUTED":
            cex = None
            kind = None
            for s, m in msgs:
                if s in ("POST_FAIL", "EXEC_ERR", "POST_ERR"):
                    cex = _parse_cex(m, names)
                    kind = s
                    res["detail"] = m[:500]
                    break
            if cex is not None:
                res["verdict"] = "REFUTED"
                res["cex"] = cex
                res["cex_kind"] = kind
            else:
                res["verdict"] = "INCONCLUSIVE"
                res["detail"] = "refuted without parsable counterexample: " + repr(msgs)[:400]
        else:
            res["verdict"] = "INCONCLUSIVE"
            res["detail"] = "path tree not exhausted / unknown: " + repr(msgs)[:300]
    except BaseException as e:  # noqa
        if isinstance(e, (KeyboardInterrupt, SystemExit)):
            raise
        res["verdict"] = "INCONCLUSIVE"
        res["detail"] = "worker error: " + "".join(traceback.format_exception_only(type(e), e))[:500]
        res["trace"] = traceback.format_exc()[-1500:]
    res["z3_checks"] = chplugin.STATS["z3_checks"] - c0
    res["z3_seconds"] = round(chplugin.STATS["z3_seconds"] - s0, 3)
    res["wall"] = round(time.time() - t0, 3)
    return res


def main(argv):
    spec, out, workdir = argv[1], argv[2], argv[3]
    sys.path.insert(0, workdir)
    from vf.obl import Obligation
    from vf import chplugin
    obs = [Obligation.from_json(d) for d in json.load(open(spec))]
    chplugin.install()
    with open(out, "a") as f:
        for i, ob in enumerate(obs):
            r = run_one(ob, workdir, i)
            f.write(json.dumps(r) + "\n")
            f.flush()


if __name__ == "__main__":
    main(sys.argv)
