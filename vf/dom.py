"""Value domains and small reference helpers shared by the property harnesses."""
from typing import Optional, Union

V = Union[int, bool, None, str]
VF = Union[int, bool, None, str, float]

ERRORS = ("#NULL!", "#DIV/0!", "#VALUE!", "#REF!", "#NAME?", "#NUM!", "#N/A")

ILIM = 99
SLEN = 2


def in_dom(v, ilim=ILIM, slen=SLEN, flim=10 ** 6):
    """Domain predicate: ints |v|<=ilim, strings len<=slen, floats finite |v|<=flim."""
    if v is None or isinstance(v, bool):
        return True
    if isinstance(v, int):
        return -ilim <= v <= ilim
    if isinstance(v, float):
        return -flim <= v <= flim
    if isinstance(v, str):
        if len(v) > slen:
            return False
        if is_ascii(v):
            return True
        return False
    return False


def is_ascii(s):
    """all code points < 128, accumulated with & so that it is one solver decision"""
    ok = True
    for c in s:
        ok = ok & (ord(c) < 128)
    return ok


def pick_err(e):
    """explicit comparison chain: solver-chosen error code without indexing by a symbolic"""
    if e == 0:
        return ERRORS[0]
    if e == 1:
        return ERRORS[1]
    if e == 2:
        return ERRORS[2]
    if e == 3:
        return ERRORS[3]
    if e == 4:
        return ERRORS[4]
    if e == 5:
        return ERRORS[5]
    return ERRORS[6]


def same(a, b):
    """type-strict equality (Python's == equates 1, 1.0, True)."""
    if isinstance(a, bool) or isinstance(b, bool):
        return isinstance(a, bool) and isinstance(b, bool) and a == b
    if a is None or b is None:
        return a is None and b is None
    if isinstance(a, str) or isinstance(b, str):
        return isinstance(a, str) and isinstance(b, str) and a == b
    return a == b


def is_excel_scalar(r):
    return isinstance(r, (int, float, str, bool)) and not isinstance(r, complex)
