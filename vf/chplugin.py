"""CrossHair C-boundary models for pycel (DESIGN.md section 2.2).

Everything here is part of the trusted base.  `install()` is called once per
worker process; `set_float_mode()` per obligation.
"""
import ast
import os
import sys
import time

_INSTALLED = False
STATS = {"z3_checks": 0, "z3_seconds": 0.0}
_FLOAT_DEFAULT = None
_CAP_DEFAULT = None
FLAGS = {}     # per-obligation switches set by an obligation body (reset by the worker before each obligation)


def _log_print_lines(fname):
    """Line numbers of `...log.<level>(...)` calls (with f-strings) and print(...) calls."""
    loglines, printlines = set(), set()
    try:
        tree = ast.parse(open(fname).read())
    except Exception:
        return loglines, printlines
    for node in ast.walk(tree):
        if not isinstance(node, ast.Call):
            continue
        f = node.func
        is_log = (isinstance(f, ast.Attribute) and isinstance(f.value, ast.Attribute)
                  and f.value.attr == 'log') or \
                 (isinstance(f, ast.Attribute) and isinstance(f.value, ast.Name)
                  and f.value.id in ('log', 'logger', 'logging'))
        is_print = isinstance(f, ast.Name) and f.id == 'print'
        if isinstance(f, ast.Name) and f.id == 'capture_error_state':
            is_log = True       # diagnostic text of captured #VALUE!/#DIV/0! (never part of a value)
        if is_print:
            printlines.update(range(node.lineno, node.end_lineno + 1))
        if is_log or is_print:
            for a in list(node.args) + [k.value for k in node.keywords]:
                if any(isinstance(s, ast.FormattedValue) for s in ast.walk(a)):
                    loglines.update(range(node.lineno, node.end_lineno + 1))
    return loglines, printlines


def install():
    global _INSTALLED, _FLOAT_DEFAULT
    if _INSTALLED:
        return
    _INSTALLED = True
    import z3
    import crosshair.core_and_libs  # noqa: registers the library patches
    from crosshair import opcode_intercept as oi
    from crosshair import core as _core
    from crosshair.tracers import frame_stack_read, frame_stack_write, NoTracing
    from crosshair.core import CrossHairValue
    from crosshair.libimpl import builtinslib as bl
    from crosshair.libimpl.builtinslib import ShellMutableSet, LinearSet

    # 0. statistics: count z3 check() calls and time (no semantic effect)
    _ocheck = z3.Solver.check

    def check(self, *a):
        t = time.perf_counter()
        try:
            return _ocheck(self, *a)
        finally:
            STATS["z3_checks"] += 1
            STATS["z3_seconds"] += time.perf_counter() - t
    z3.Solver.check = check

    # 1. `sym in frozenset` -> one disjunction of equalities (a single fork instead of hashing,
    #    which would realise the operand)
    class _OrSet:
        def __init__(self, items):
            self.items = tuple(sorted(items, key=repr))

        def __contains__(self, item):
            with NoTracing():
                onechar = (isinstance(item, bl.AnySymbolicStr) and
                           all(type(c) is str and len(c) == 1 for c in self.items))
            if onechar:
                # symbolic text against a set of single characters: compare code points (str == str forks)
                if len(item) != 1:
                    return False
                item = ord(item)
            acc = None
            for c in self.items:
                e = (item == (ord(c) if onechar else c))
                # identity tests on a symbolic bool would realise it (one fork per element): do them untraced
                with NoTracing():
                    if e is True:
                        return True
                    skip = e is False or e is NotImplemented
                    first = acc is None
                if skip:
                    continue
                acc = e if first else (acc | e)
            with NoTracing():
                none = acc is None
            return False if none else acc

    _orig = oi.ContainmentInterceptor.trace_op

    def trace_op(self, frame, codeobj, codenum):
        item = frame_stack_read(frame, -2)
        container = frame_stack_read(frame, -1)
        if (type(container) is frozenset or (type(container) is set and len(container) <= 16)) and (
                isinstance(item, CrossHairValue) or type(item) in (tuple, list)):
            # a tuple (range value) may hold symbolic cells: hashing it would realise them
            frame_stack_write(frame, -1, _OrSet(container))
            return
        if not isinstance(item, CrossHairValue):
            return
        return _orig(self, frame, codeobj, codenum)
    oi.ContainmentInterceptor.trace_op = trace_op

    # 2. log / print formatting stub (message text is never observed by a property)
    import pycel.excelcompiler as ec
    import pycel.excelformula as ef
    tables = {}
    import pycel.excelutil as eu
    for mod in (ec, ef, eu):
        tables[mod.__file__] = _log_print_lines(mod.__file__)
    _origf = oi.FormatValueInterceptor.trace_op

    def f_trace_op(self, frame, codeobj, codenum):
        t = tables.get(frame.f_code.co_filename)
        if t is not None and frame.f_lineno in t[0]:
            flags = oi.frame_op_arg(frame)
            frame_stack_write(frame, -2 if flags == 0x04 else -1, "<log>")
            return
        return _origf(self, frame, codeobj, codenum)
    oi.FormatValueInterceptor.trace_op = f_trace_op

    _osf = _core._PATCH_REGISTRATIONS[str.format]

    def _str_format(self, /, *a, **kw):
        with NoTracing():
            fr, hit = sys._getframe(1), False
            for _ in range(6):
                if fr is None:
                    break
                t = tables.get(fr.f_code.co_filename)
                if t is not None and fr.f_lineno in t[1]:
                    hit = True
                    break
                fr = fr.f_back
        return "<print>" if hit else _osf(self, *a, **kw)
    _core._PATCH_REGISTRATIONS[str.format] = _str_format

    # 3. int(symbolic float) -> the proxy's own __int__ (z3 ToInt, trunc toward zero)
    _oint = _core._PATCH_REGISTRATIONS[int]

    def _int(val=0, *a):
        with NoTracing():
            isf = isinstance(val, bl.SymbolicFloat) and not a
        if isf:
            return val.__int__()
        with NoTracing():    # the original patch must be entered untraced (else it re-enters this one)
            return _oint(val, *a)
    _core._PATCH_REGISTRATIONS[int] = _int

    # 4. ASCII fast path for str.lower()/upper() on symbolic text.  CrossHair's model goes
    # through z3 functions over the whole Unicode case tables (seconds per character); for a
    # code point < 128 the mapping is the 26-letter shift.  Other code points use the original.
    _olower, _oupper = bl.AnySymbolicStr.lower, bl.AnySymbolicStr.upper

    def _ascii_case(self, lo, hi, delta, orig):
        cps = [ord(ch) for ch in self]
        if not cps:
            return self
        ok = cps[0] < 128
        for cp in cps[1:]:
            ok = ok & (cp < 128)
        if ok:      # one fork for the whole string; the mapping itself is a z3 term (no forks)
            return bl.LazyIntSymbolicStr([cp + delta * ((lo <= cp) & (cp <= hi)) for cp in cps])
        return orig(self)

    def lower(self):
        return _ascii_case(self, 65, 90, 32, _olower)

    def upper(self):
        return _ascii_case(self, 97, 122, -32, _oupper)
    bl.AnySymbolicStr.lower = lower
    bl.AnySymbolicStr.upper = upper

    # 5. engine bug fix (crosshair 0.0.110): SymbolicBoundedIntTuple._create_up_to(size) with
    # size < len(_created_vars) and a non-empty queue slices with a negative count and appends
    # queued variables beyond the string's length (iteration then yields phantom characters).
    _ocreate = bl.SymbolicBoundedIntTuple._create_up_to

    def _create_up_to(self, size):
        if size <= len(self._created_vars):
            return
        return _ocreate(self, size)
    bl.SymbolicBoundedIntTuple._create_up_to = _create_up_to

    # 6. operator.pow with a symbolic base and a concrete exponent that is not a non-negative int:
    # CrossHair's real-valued model of ** knows neither complex results nor OverflowError.
    import operator
    import sys as _sys
    from crosshair.core import proxy_for_type
    from crosshair.statespace import context_statespace
    from crosshair.util import IgnoreAttempt
    DBL_MAX = _sys.float_info.max
    _cnt = [0]

    def _pow_model(a, b):
        bf = float(b)
        if bf == 0.0:
            return 1.0
        if a == 0:
            if bf < 0:
                raise ZeroDivisionError("0.0 cannot be raised to a negative power")
            return 0.0
        if a < 0 and bf != int(bf):
            return complex(0.5, 0.5)        # CPython: negative base, fractional exponent -> complex
        mag = -a if a < 0 else a
        if bf >= 1.0:
            if mag > DBL_MAX ** (1.0 / bf):
                raise OverflowError("(34, 'Numerical result out of range')")
        elif bf <= -1.0:
            if mag < 1.0 / (DBL_MAX ** (1.0 / -bf)):
                raise OverflowError("(34, 'Numerical result out of range')")
        with NoTracing():
            name = "powres" + context_statespace().uniq()
        return proxy_for_type(float, name)   # value unconstrained (totality/type only)

    def _pow(a, b, *m):
        with NoTracing():
            use = (not m and isinstance(a, (bl.SymbolicFloat, bl.SymbolicInt)) and type(b) in (int, float)
                   and (type(b) is float or b < 0 or isinstance(a, bl.SymbolicFloat)))
            small = (not m and isinstance(a, bl.SymbolicInt) and type(b) is int and 0 <= b <= 8)
        if use:
            return _pow_model(a, b)
        if small:       # exact: repeated multiplication instead of z3's power operator
            r = 1
            for _ in range(b):
                r = r * a
            return r
        with NoTracing():
            big = (not m and isinstance(a, bl.SymbolicInt) and type(b) is int and b > 8)
            if big:
                name = "powint" + context_statespace().uniq()
        if big:         # int ** int never fails in CPython (arbitrary precision): unconstrained int
            return proxy_for_type(int, name)
        return pow(a, b, *m)
    _core._PATCH_REGISTRATIONS[operator.pow] = _pow

    # 7. engine bug fix: contract lookup for a called closure whose free variable is still
    # unassigned (pycel.lib.lookup.index.array_data / _C_) dies in inspect.getclosurevars with
    # "ValueError: Cell is empty"; fall back to the function's globals.
    from crosshair import fnutil as _fu
    _ofg = _fu.fn_globals

    def fn_globals(fn):
        try:
            return _ofg(fn)
        except ValueError:
            return getattr(fn, "__globals__", {})
    _fu.fn_globals = fn_globals

    # 8. math.floor / math.ceil / math.trunc of a symbolic number -> the proxy's own method
    # (the C functions realise their argument)
    import math as _math

    def _mk(orig, meth):
        def f(x):
            with NoTracing():
                isint = isinstance(x, bl.SymbolicInt)
                isfloat = isinstance(x, bl.SymbolicFloat)
            if isint:
                return x
            if isfloat:
                return getattr(x, meth)()
            with NoTracing():           # concrete argument: the real C function
                return orig(x)
        return f
    for _name, _meth in (("floor", "__floor__"), ("ceil", "__ceil__"), ("trunc", "__trunc__")):
        _f = getattr(_math, _name)
        _core._PATCH_REGISTRATIONS[_f] = _mk(_f, _meth)

    # 9. calendar.monthrange(year, month): the day count is exact (table + leap rule); the weekday of
    # the 1st, which pycel never uses and which costs a date construction + mod 7 per call, is an
    # unconstrained int in 0..6.
    import calendar as _cal
    _omr = _cal.monthrange

    def _monthrange(year, month):
        with NoTracing():
            sym = isinstance(year, CrossHairValue) or isinstance(month, CrossHairValue)
        if not sym:
            with NoTracing():
                return _omr(year, month)
        if not 1 <= month <= 12:
            raise _cal.IllegalMonthError(month)
        ndays = 31
        for i in range(1, 13):
            if month == i:
                ndays = _cal.mdays[i]
        if month == 2 and (year % 4 == 0 and (year % 100 != 0 or year % 400 == 0)):
            ndays = 29
        with NoTracing():
            name = "weekday1st" + context_statespace().uniq()
        w = proxy_for_type(int, name)
        if not 0 <= w <= 6:
            raise IgnoreAttempt("weekday out of range")
        return (w, ndays)
    _core._PATCH_REGISTRATIONS[_cal.monthrange] = _monthrange

    # 10. formula text -> python code -> code object, and the scan for needed addresses, depend only on the
    # (concrete) formula text: run them untraced (no model involved, only the tracer is switched off).
    from crosshair.tracers import is_tracing

    def _untraced(fn):
        def wrapper(*a, **kw):
            if is_tracing():
                with NoTracing():
                    return fn(*a, **kw)
            return fn(*a, **kw)
        wrapper.__name__ = getattr(fn, "__name__", "untraced")
        return wrapper
    for _pname in ("needed_addresses", "python_code", "compiled_python", "rpn", "ast"):
        _prop = ef.ExcelFormula.__dict__[_pname]
        setattr(ef.ExcelFormula, _pname, property(_untraced(_prop.fget)))
    ef.load_functions = _untraced(ef.load_functions)

    # 11. math.isclose on symbolic numbers: the documented formula over (real-valued) finite numbers
    def _isclose(a, b, *, rel_tol=1e-09, abs_tol=0.0):
        with NoTracing():
            sym = any(isinstance(x, CrossHairValue) for x in (a, b, rel_tol, abs_tol))
            if not sym:
                return _math.isclose(a, b, rel_tol=rel_tol, abs_tol=abs_tol)
        if rel_tol < 0 or abs_tol < 0:
            raise ValueError("tolerances must be non-negative")
        if a == b:
            return True
        diff = a - b if a > b else b - a
        ma = a if a >= 0 else -a
        mb = b if b >= 0 else -b
        bound = rel_tol * (ma if ma > mb else mb)
        if abs_tol > bound:
            bound = abs_tol
        return diff <= bound
    _core._PATCH_REGISTRATIONS[_math.isclose] = _isclose

    # 12. the decimal rounding idiom  int(Decimal(repr(x) | n).scaleb(e).quantize(Decimal(1), ROUND_HALF_UP))
    # (Decimal is C code).  Active only when the obligation sets FLAGS["decimal"]; under the floats-as-reals
    # assumption repr(x) spells x exactly.  Anything but this chain falls back to a realised real Decimal.
    import decimal as _dec
    from crosshair.core import realize as _realize, deep_realize as _deep_realize

    class _FloatRepr:
        def __init__(self, x):
            self.x = x

        def _real(self):
            return repr(_realize(self.x))

        def __str__(self):
            return self._real()

        def __getattr__(self, name):
            return getattr(self._real(), name)

    class _SymDec:
        def __init__(self, val):
            self.val = val

        def _real(self):
            v = _realize(self.val)
            return _dec.Decimal(v) if isinstance(v, int) else _dec.Decimal(repr(v))

        def scaleb(self, n, context=None):
            n = _realize(n)
            return _SymDec(self.val * 10 ** n if n >= 0 else self.val / 10 ** (-n))

        def quantize(self, exp, rounding=None, context=None):
            with NoTracing():
                ok = (type(exp) is _dec.Decimal and exp == _dec.Decimal(1) and rounding == _dec.ROUND_HALF_UP)
                isint = isinstance(self.val, (int, bl.SymbolicInt))
            if not ok:
                return self._real().quantize(exp, rounding=rounding)
            if isint:
                return self
            v = self.val
            with NoTracing():
                concrete = not isinstance(v, bl.SymbolicFloat)
            if concrete:
                return _SymDec(int(_dec.Decimal(repr(v)).quantize(exp, rounding=rounding)))
            neg = v < 0
            if neg:
                v = -v
            with NoTracing():
                # n = floor(v + 1/2) as a fresh integer tied to v by two linear inequalities (to_int terms under
                # later div/mod time the solver out)
                space = _core.context_statespace()
                n = z3.Int(f"rounded{space.uniq()}")
                space.add(z3.And(z3.ToReal(n) <= v.var + z3.RealVal("1/2"), v.var + z3.RealVal("1/2") < z3.ToReal(n) + 1))
                out = bl.SymbolicInt(n)
            return _SymDec(-out if neg else out)

        def to_int(self):
            v = self.val
            with NoTracing():
                isint = isinstance(v, (int, bl.SymbolicInt))
            return v if isint else v.__int__()

        def __getattr__(self, name):
            return getattr(self._real(), name)

    _orepr = _core._PATCH_REGISTRATIONS[repr]

    def _repr(obj):
        with NoTracing():
            hit = FLAGS.get("decimal") and isinstance(obj, bl.SymbolicFloat)
        if hit:
            return _FloatRepr(obj)
        # CrossHair's own patch carries a contract ("post[]: True"), which makes it a candidate for
        # short-circuiting (an arbitrary string instead of the rendering): call its body directly
        return bl.invoke_dunder(obj, "__repr__")
    _core._PATCH_REGISTRATIONS[repr] = _repr

    def _Decimal(value="0", context=None):
        with NoTracing():
            kind = 0
            if FLAGS.get("decimal"):
                if isinstance(value, _FloatRepr):
                    kind = 1
                elif isinstance(value, bl.SymbolicInt):
                    kind = 2
                elif isinstance(value, _SymDec):
                    kind = 3
            if kind == 1:
                return _SymDec(value.x)
            if kind == 2:
                return _SymDec(value)
            if kind == 3:
                return value
            if isinstance(value, _FloatRepr):
                value = value._real()
            return _dec.Decimal(_deep_realize(value))
    _core._PATCH_REGISTRATIONS[_dec.Decimal] = _Decimal

    _oint2 = _core._PATCH_REGISTRATIONS[int]

    def _int2(val=0, *a):
        with NoTracing():
            isd = isinstance(val, _SymDec) and not a
        if isd:
            return val.to_int()
        return _oint2(val, *a)
    _core._PATCH_REGISTRATIONS[int] = _int2

    # 13. format(number, spec) as used by f-strings, for the specs of the TEXT() renderer:
    #     ints: '' 'd' ',' '0<N>d';  floats (as reals): '#[,].<N>f' = correctly rounded (ties to even) decimal digits
    import re as _re
    _oformat = _core._PATCH_REGISTRATIONS[format]
    _INT_SPEC = _re.compile(r"^(?:(,)|0(\d+)d|d|)$")
    _FLT_SPEC = _re.compile(r"^#?(,?)\.(\d+)f$")

    def _group(s):
        n = len(s)
        if n <= 3:
            return s
        if n <= 6:
            return s[:n - 3] + "," + s[n - 3:]
        if n <= 9:
            return s[:n - 6] + "," + s[n - 6:n - 3] + "," + s[n - 3:]
        return None

    def _dec_str(v):
        """decimal digits of v >= 0: fork on the digit count, then fresh digit variables tied to v by one linear
        equation (nested div/mod chains time the solver out from five digits on)"""
        with NoTracing():
            sym = isinstance(v, bl.SymbolicInt)
            if not sym:
                return str(v)
        n, bound = 1, 10
        while not v < bound:
            n, bound = n + 1, bound * 10
            if n > 12:
                return v.__str__()
        with NoTracing():
            space = _core.context_statespace()
            ds = [z3.Int(f"digit{space.uniq()}") for _ in range(n)]
            for d in ds:
                space.add(z3.And(d >= 0, d <= 9))
            space.add(v.var == z3.Sum([d * 10 ** (n - 1 - i) for i, d in enumerate(ds)]))
            return bl.LazyIntSymbolicStr([bl.SymbolicInt(48 + d) for d in ds])

    def _fmt_int(v, comma, width):
        neg = v < 0
        s = _dec_str(-v if neg else v)
        if width:
            if len(s) < width:
                s = "0" * (width - len(s)) + s
        if comma:
            g = _group(s)
            if g is None:
                return None
            s = g
        return "-" + s if neg else s

    def _format(obj, format_spec=""):
        with NoTracing():
            kind, m = 0, None
            if isinstance(format_spec, str) and FLAGS.get("format"):
                if isinstance(obj, bl.SymbolicInt):
                    m = _INT_SPEC.match(format_spec)
                    kind = 1 if m else 0
                elif isinstance(obj, bl.SymbolicFloat):
                    m = _FLT_SPEC.match(format_spec)
                    kind = 2 if m else 0
        if kind == 1:
            r = _fmt_int(obj, bool(m.group(1)), int(m.group(2) or 0))
            if r is not None:
                return r
        if kind == 2:
            d = int(m.group(2))
            neg = obj < 0
            y = (-obj if neg else obj) * 10 ** d
            f = y.__floor__()
            diff = y - f
            if diff > 0.5 or (diff == 0.5 and f % 2 == 1):
                f = f + 1
            ip, fp = divmod(f, 10 ** d)
            left = _fmt_int(ip, bool(m.group(1)), 0)
            if left is not None:
                frac = _dec_str(10 ** d + fp)[1:] if d else ""
                out = left + "." + frac if (d or format_spec[:1] == "#") else left
                return "-" + out if neg else out
        with NoTracing():
            return _oformat(obj, format_spec)
    _core._PATCH_REGISTRATIONS[format] = _format

    _FLOAT_DEFAULT = bl._PYTYPE_TO_WRAPPER_TYPE[float]


def set_float_mode(mode):
    """mode 'real': floats are exact reals (single representation, stated assumption)."""
    from crosshair.libimpl import builtinslib as bl
    from crosshair import statespace as ss
    global _CAP_DEFAULT
    if _CAP_DEFAULT is None:
        _CAP_DEFAULT = ss.StateSpace.cap_result_at_unknown
    if mode == 'real':
        # stated assumption of the obligation: floats are exact reals.  CrossHair caps every
        # path that creates a real-based float at UNKNOWN (reals are an incomplete model of
        # binary64); under the assumption the cap is lifted so exhaustion yields CONFIRMED.
        bl._PYTYPE_TO_WRAPPER_TYPE[float] = ((bl.RealBasedSymbolicFloat, 1.0),)
        ss.StateSpace.cap_result_at_unknown = lambda self: None
    else:
        bl._PYTYPE_TO_WRAPPER_TYPE[float] = _FLOAT_DEFAULT
        ss.StateSpace.cap_result_at_unknown = _CAP_DEFAULT


MODELS = [
    "`sym in frozenset` / `sym in set of <=16 constants` as one disjunction of equalities (identity tests on the symbolic result done untraced, so no fork per element); a symbolic character against single characters by code point",
    "f-string/str.format on log-call, print-call and capture_error_state-call lines of excelcompiler.py/excelformula.py/excelutil.py return a constant (diagnostic text only)",
    "int(symbolic float) routed to the proxy's __int__ (z3 ToInt)",
    "float as exact real, UNKNOWN cap of real-based floats lifted (obligations tagged float=real)",
    "operator.pow(symbolic base, concrete exponent not a non-negative int): complex for negative base/fractional exponent, ZeroDivisionError for 0**negative, OverflowError beyond DBL_MAX**(1/b), otherwise an unconstrained float",
    "math.floor/ceil/trunc(symbolic int) = identity, (symbolic float) = the proxy's __floor__/__ceil__/__trunc__ (z3 ToInt)",
    "calendar.monthrange(symbolic): exact day count, first-weekday component an unconstrained int in 0..6",
    "ExcelFormula.rpn/ast/python_code/compiled_python/needed_addresses and load_functions (functions of the concrete formula text only) run with the tracer switched off",
    "math.isclose(symbolic): |a-b| <= max(rel_tol*max(|a|,|b|), abs_tol) over finite reals",
    "fix: crosshair.fnutil.fn_globals tolerates closures with unassigned free variables",
    "fix of SymbolicBoundedIntTuple._create_up_to (negative slice appended phantom characters)",
    "only where the obligation switches it on (TEXT): repr(float-as-real) spells the real exactly; Decimal(that | symbolic int).scaleb(e).quantize(Decimal(1), ROUND_HALF_UP) -> int(): floor(|v| + 1/2) with the sign restored, the floor a fresh integer tied by two linear inequalities; any other Decimal use realises",
    "only where the obligation switches it on (TEXT): format(symbolic int, '' | 'd' | ',' | '0<N>d') and format(float-as-real, '#[,].<N>f' = round-half-even at N digits): digits as fresh variables in 0..9 tied to the value by one linear equation, one fork per digit count",
    "CrossHair built-in, stated here because it hides process state: functools.lru_cache wrappers are called without their cache while tracing (history obligations such as C16 match_twice / C17 date_history therefore branch their operands into constants and make the calls with the tracer off)",
    "repr() patch called without CrossHair's contract wrapper (its `post[]: True` made repr() eligible for short-circuiting to an arbitrary string)",
    "str.lower()/upper() of a symbolic code point < 128 as the 26-letter ASCII shift (others: CrossHair's Unicode model)",
]
