"""CrossHair C-boundary models for pycel (DESIGN.md section 2.2).

Everything here is part of the trusted base.  `install()` is called once per
worker process; `set_float_mode()` per obligation.
"""
import ast
import os
import sys
import time

_INSTALLED = False
STATS = {"z3_checks": 0, "z3_seconds": 0.0}
_FLOAT_DEFAULT = None
_CAP_DEFAULT = None


def _log_print_lines(fname):
    """Line numbers of `...log.<level>(...)` calls (with f-strings) and print(...) calls."""
    loglines, printlines = set(), set()
    try:
        tree = ast.parse(open(fname).read())
    except Exception:
        return loglines, printlines
    for node in ast.walk(tree):
        if not isinstance(node, ast.Call):
            continue
        f = node.func
        is_log = (isinstance(f, ast.Attribute) and isinstance(f.value, ast.Attribute)
                  and f.value.attr == 'log') or \
                 (isinstance(f, ast.Attribute) and isinstance(f.value, ast.Name)
                  and f.value.id in ('log', 'logger', 'logging'))
        is_print = isinstance(f, ast.Name) and f.id == 'print'
        if isinstance(f, ast.Name) and f.id == 'capture_error_state':
            is_log = True       # diagnostic text of captured #VALUE!/#DIV/0! (never part of a value)
        if is_print:
            printlines.update(range(node.lineno, node.end_lineno + 1))
        if is_log or is_print:
            for a in list(node.args) + [k.value for k in node.keywords]:
                if any(isinstance(s, ast.FormattedValue) for s in ast.walk(a)):
                    loglines.update(range(node.lineno, node.end_lineno + 1))
    return loglines, printlines


def install():
    global _INSTALLED, _FLOAT_DEFAULT
    if _INSTALLED:
        return
    _INSTALLED = True
    import z3
    import crosshair.core_and_libs  # noqa: registers the library patches
    from crosshair import opcode_intercept as oi
    from crosshair import core as _core
    from crosshair.tracers import frame_stack_read, frame_stack_write, NoTracing
    from crosshair.core import CrossHairValue
    from crosshair.libimpl import builtinslib as bl
    from crosshair.libimpl.builtinslib import ShellMutableSet, LinearSet

    # 0. statistics: count z3 check() calls and time (no semantic effect)
    _ocheck = z3.Solver.check

    def check(self, *a):
        t = time.perf_counter()
        try:
            return _ocheck(self, *a)
        finally:
            STATS["z3_checks"] += 1
            STATS["z3_seconds"] += time.perf_counter() - t
    z3.Solver.check = check

    # 1. `sym in frozenset` -> one disjunction of equalities (a single fork instead of hashing,
    #    which would realise the operand)
    class _OrSet:
        def __init__(self, items):
            self.items = tuple(sorted(items, key=repr))

        def __contains__(self, item):
            acc = False
            for c in self.items:
                e = (item == c)
                if e is True:
                    return True
                if e is False or e is NotImplemented:
                    continue
                acc = e if acc is False else (acc | e)
            return acc

    _orig = oi.ContainmentInterceptor.trace_op

    def trace_op(self, frame, codeobj, codenum):
        item = frame_stack_read(frame, -2)
        container = frame_stack_read(frame, -1)
        if type(container) is frozenset and (isinstance(item, CrossHairValue) or type(item) in (tuple, list)):
            # a tuple (range value) may hold symbolic cells: hashing it would realise them
            frame_stack_write(frame, -1, _OrSet(container))
            return
        if not isinstance(item, CrossHairValue):
            return
        return _orig(self, frame, codeobj, codenum)
    oi.ContainmentInterceptor.trace_op = trace_op

    # 2. log / print formatting stub (message text is never observed by a property)
    import pycel.excelcompiler as ec
    import pycel.excelformula as ef
    tables = {}
    import pycel.excelutil as eu
    for mod in (ec, ef, eu):
        tables[mod.__file__] = _log_print_lines(mod.__file__)
    _origf = oi.FormatValueInterceptor.trace_op

    def f_trace_op(self, frame, codeobj, codenum):
        t = tables.get(frame.f_code.co_filename)
        if t is not None and frame.f_lineno in t[0]:
            flags = oi.frame_op_arg(frame)
            frame_stack_write(frame, -2 if flags == 0x04 else -1, "<log>")
            return
        return _origf(self, frame, codeobj, codenum)
    oi.FormatValueInterceptor.trace_op = f_trace_op

    _osf = _core._PATCH_REGISTRATIONS[str.format]

    def _str_format(self, /, *a, **kw):
        with NoTracing():
            fr, hit = sys._getframe(1), False
            for _ in range(6):
                if fr is None:
                    break
                t = tables.get(fr.f_code.co_filename)
                if t is not None and fr.f_lineno in t[1]:
                    hit = True
                    break
                fr = fr.f_back
        return "<print>" if hit else _osf(self, *a, **kw)
    _core._PATCH_REGISTRATIONS[str.format] = _str_format

    # 3. int(symbolic float) -> the proxy's own __int__ (z3 ToInt, trunc toward zero)
    _oint = _core._PATCH_REGISTRATIONS[int]

    def _int(val=0, *a):
        with NoTracing():
            isf = isinstance(val, bl.SymbolicFloat) and not a
        if isf:
            return val.__int__()
        with NoTracing():    # the original patch must be entered untraced (else it re-enters this one)
            return _oint(val, *a)
    _core._PATCH_REGISTRATIONS[int] = _int

    # 4. ASCII fast path for str.lower()/upper() on symbolic text.  CrossHair's model goes
    # through z3 functions over the whole Unicode case tables (seconds per character); for a
    # code point < 128 the mapping is the 26-letter shift.  Other code points use the original.
    _olower, _oupper = bl.AnySymbolicStr.lower, bl.AnySymbolicStr.upper

    def _ascii_case(self, lo, hi, delta, orig):
        cps = [ord(ch) for ch in self]
        if not cps:
            return self
        ok = cps[0] < 128
        for cp in cps[1:]:
            ok = ok & (cp < 128)
        if ok:      # one fork for the whole string; the mapping itself is a z3 term (no forks)
            return bl.LazyIntSymbolicStr([cp + delta * ((lo <= cp) & (cp <= hi)) for cp in cps])
        return orig(self)

    def lower(self):
        return _ascii_case(self, 65, 90, 32, _olower)

    def upper(self):
        return _ascii_case(self, 97, 122, -32, _oupper)
    bl.AnySymbolicStr.lower = lower
    bl.AnySymbolicStr.upper = upper

    # 5. engine bug fix (crosshair 0.0.110): SymbolicBoundedIntTuple._create_up_to(size) with
    # size < len(_created_vars) and a non-empty queue slices with a negative count and appends
    # queued variables beyond the string's length (iteration then yields phantom characters).
    _ocreate = bl.SymbolicBoundedIntTuple._create_up_to

    def _create_up_to(self, size):
        if size <= len(self._created_vars):
            return
        return _ocreate(self, size)
    bl.SymbolicBoundedIntTuple._create_up_to = _create_up_to

    # 6. operator.pow with a symbolic base and a concrete exponent that is not a non-negative int:
    # CrossHair's real-valued model of ** knows neither complex results nor OverflowError.
    import operator
    import sys as _sys
    from crosshair.core import proxy_for_type
    from crosshair.statespace import context_statespace
    from crosshair.util import IgnoreAttempt
    DBL_MAX = _sys.float_info.max
    _cnt = [0]

    def _pow_model(a, b):
        bf = float(b)
        if bf == 0.0:
            return 1.0
        if a == 0:
            if bf < 0:
                raise ZeroDivisionError("0.0 cannot be raised to a negative power")
            return 0.0
        if a < 0 and bf != int(bf):
            return complex(0.5, 0.5)        # CPython: negative base, fractional exponent -> complex
        mag = -a if a < 0 else a
        if bf >= 1.0:
            if mag > DBL_MAX ** (1.0 / bf):
                raise OverflowError("(34, 'Numerical result out of range')")
        elif bf <= -1.0:
            if mag < 1.0 / (DBL_MAX ** (1.0 / -bf)):
                raise OverflowError("(34, 'Numerical result out of range')")
        with NoTracing():
            name = "powres" + context_statespace().uniq()
        return proxy_for_type(float, name)   # value unconstrained (totality/type only)

    def _pow(a, b, *m):
        with NoTracing():
            use = (not m and isinstance(a, (bl.SymbolicFloat, bl.SymbolicInt)) and type(b) in (int, float)
                   and (type(b) is float or b < 0 or isinstance(a, bl.SymbolicFloat)))
            small = (not m and isinstance(a, bl.SymbolicInt) and type(b) is int and 0 <= b <= 8)
        if use:
            return _pow_model(a, b)
        if small:       # exact: repeated multiplication instead of z3's power operator
            r = 1
            for _ in range(b):
                r = r * a
            return r
        with NoTracing():
            big = (not m and isinstance(a, bl.SymbolicInt) and type(b) is int and b > 8)
            if big:
                name = "powint" + context_statespace().uniq()
        if big:         # int ** int never fails in CPython (arbitrary precision): unconstrained int
            return proxy_for_type(int, name)
        return pow(a, b, *m)
    _core._PATCH_REGISTRATIONS[operator.pow] = _pow

    # 7. engine bug fix: contract lookup for a called closure whose free variable is still
    # unassigned (pycel.lib.lookup.index.array_data / _C_) dies in inspect.getclosurevars with
    # "ValueError: Cell is empty"; fall back to the function's globals.
    from crosshair import fnutil as _fu
    _ofg = _fu.fn_globals

    def fn_globals(fn):
        try:
            return _ofg(fn)
        except ValueError:
            return getattr(fn, "__globals__", {})
    _fu.fn_globals = fn_globals

    # 8. math.floor / math.ceil / math.trunc of a symbolic number -> the proxy's own method
    # (the C functions realise their argument)
    import math as _math

    def _mk(orig, meth):
        def f(x):
            with NoTracing():
                isint = isinstance(x, bl.SymbolicInt)
                isfloat = isinstance(x, bl.SymbolicFloat)
            if isint:
                return x
            if isfloat:
                return getattr(x, meth)()
            with NoTracing():           # concrete argument: the real C function
                return orig(x)
        return f
    for _name, _meth in (("floor", "__floor__"), ("ceil", "__ceil__"), ("trunc", "__trunc__")):
        _f = getattr(_math, _name)
        _core._PATCH_REGISTRATIONS[_f] = _mk(_f, _meth)

    # 9. calendar.monthrange(year, month): the day count is exact (table + leap rule); the weekday of
    # the 1st, which pycel never uses and which costs a date construction + mod 7 per call, is an
    # unconstrained int in 0..6.
    import calendar as _cal
    _omr = _cal.monthrange

    def _monthrange(year, month):
        with NoTracing():
            sym = isinstance(year, CrossHairValue) or isinstance(month, CrossHairValue)
        if not sym:
            with NoTracing():
                return _omr(year, month)
        if not 1 <= month <= 12:
            raise _cal.IllegalMonthError(month)
        ndays = 31
        for i in range(1, 13):
            if month == i:
                ndays = _cal.mdays[i]
        if month == 2 and (year % 4 == 0 and (year % 100 != 0 or year % 400 == 0)):
            ndays = 29
        with NoTracing():
            name = "weekday1st" + context_statespace().uniq()
        w = proxy_for_type(int, name)
        if not 0 <= w <= 6:
            raise IgnoreAttempt("weekday out of range")
        return (w, ndays)
    _core._PATCH_REGISTRATIONS[_cal.monthrange] = _monthrange

    # 10. formula text -> python code -> code object, and the scan for needed addresses, depend only on the
    # (concrete) formula text: run them untraced (no model involved, only the tracer is switched off).
    from crosshair.tracers import is_tracing

    def _untraced(fn):
        def wrapper(*a, **kw):
            if is_tracing():
                with NoTracing():
                    return fn(*a, **kw)
            return fn(*a, **kw)
        wrapper.__name__ = getattr(fn, "__name__", "untraced")
        return wrapper
    for _pname in ("needed_addresses", "python_code", "compiled_python", "rpn", "ast"):
        _prop = ef.ExcelFormula.__dict__[_pname]
        setattr(ef.ExcelFormula, _pname, property(_untraced(_prop.fget)))
    ef.load_functions = _untraced(ef.load_functions)

    # 11. math.isclose on symbolic numbers: the documented formula over (real-valued) finite numbers
    def _isclose(a, b, *, rel_tol=1e-09, abs_tol=0.0):
        with NoTracing():
            sym = any(isinstance(x, CrossHairValue) for x in (a, b, rel_tol, abs_tol))
            if not sym:
                return _math.isclose(a, b, rel_tol=rel_tol, abs_tol=abs_tol)
        if rel_tol < 0 or abs_tol < 0:
            raise ValueError("tolerances must be non-negative")
        if a == b:
            return True
        diff = a - b if a > b else b - a
        ma = a if a >= 0 else -a
        mb = b if b >= 0 else -b
        bound = rel_tol * (ma if ma > mb else mb)
        if abs_tol > bound:
            bound = abs_tol
        return diff <= bound
    _core._PATCH_REGISTRATIONS[_math.isclose] = _isclose

    _FLOAT_DEFAULT = bl._PYTYPE_TO_WRAPPER_TYPE[float]


def set_float_mode(mode):
    """mode 'real': floats are exact reals (single representation, stated assumption)."""
    from crosshair.libimpl import builtinslib as bl
    from crosshair import statespace as ss
    global _CAP_DEFAULT
    if _CAP_DEFAULT is None:
        _CAP_DEFAULT = ss.StateSpace.cap_result_at_unknown
    if mode == 'real':
        # stated assumption of the obligation: floats are exact reals.  CrossHair caps every
        # path that creates a real-based float at UNKNOWN (reals are an incomplete model of
        # binary64); under the assumption the cap is lifted so exhaustion yields CONFIRMED.
        bl._PYTYPE_TO_WRAPPER_TYPE[float] = ((bl.RealBasedSymbolicFloat, 1.0),)
        ss.StateSpace.cap_result_at_unknown = lambda self: None
    else:
        bl._PYTYPE_TO_WRAPPER_TYPE[float] = _FLOAT_DEFAULT
        ss.StateSpace.cap_result_at_unknown = _CAP_DEFAULT


MODELS = [
    "`sym in frozenset` as a linear scan of equalities (LinearSet)",
    "f-string/str.format on log-call, print-call and capture_error_state-call lines of excelcompiler.py/excelformula.py/excelutil.py return a constant (diagnostic text only)",
    "int(symbolic float) routed to the proxy's __int__ (z3 ToInt)",
    "float as exact real, UNKNOWN cap of real-based floats lifted (obligations tagged float=real)",
    "operator.pow(symbolic base, concrete exponent not a non-negative int): complex for negative base/fractional exponent, ZeroDivisionError for 0**negative, OverflowError beyond DBL_MAX**(1/b), otherwise an unconstrained float",
    "math.floor/ceil/trunc(symbolic int) = identity, (symbolic float) = the proxy's __floor__/__ceil__/__trunc__ (z3 ToInt)",
    "calendar.monthrange(symbolic): exact day count, first-weekday component an unconstrained int in 0..6",
    "ExcelFormula.rpn/ast/python_code/compiled_python/needed_addresses and load_functions (functions of the concrete formula text only) run with the tracer switched off",
    "math.isclose(symbolic): |a-b| <= max(rel_tol*max(|a|,|b|), abs_tol) over finite reals",
    "fix: crosshair.fnutil.fn_globals tolerates closures with unassigned free variables",
    "fix of SymbolicBoundedIntTuple._create_up_to (negative slice appended phantom characters)",
    "str.lower()/upper() of a symbolic code point < 128 as the 26-letter ASCII shift (others: CrossHair's Unicode model)",
]
