"""Engine K worker: decide a batch of obligations with the astz3 executor (vf/kengine).

usage: python -m vf.kworker <spec.json> <out.jsonl> <workdir>
"""
import importlib
import json
import logging
import sys
import time
import traceback

logging.disable(logging.CRITICAL)


def run_one(ob):
    from vf.kengine.sym import Engine
    t0 = time.time()
    res = {"oid": ob.oid, "engine": "K"}
    try:
        mod = importlib.import_module(ob.module)
        fn = getattr(mod, ob.func)
        eng = Engine(timeout_s=max(10, ob.timeout / 2))
        out = eng.explore(lambda E: fn(E, *ob.params), budget_s=ob.timeout)
        res.update(verdict=out["verdict"], paths=out.get("paths", 0), twin="REFUTED" if out.get("reached") else "CONFIRMED",
                   twin_paths=0, z3_checks=eng.checks, z3_seconds=round(eng.solver_s, 3))
        if out["verdict"] == "REFUTED":
            res["cex"] = {k: repr(v) for k, v in out["cex"].items()}
            res["cex_kind"] = "POST_FAIL"
            res["detail"] = "counterexample " + json.dumps(res["cex"])[:300]
        elif out["verdict"] == "INCONCLUSIVE":
            res["detail"] = out.get("detail", "")
    except BaseException as e:  # noqa
        if isinstance(e, (KeyboardInterrupt, SystemExit)):
            raise
        res["verdict"] = "INCONCLUSIVE"
        res["detail"] = "worker error: " + "".join(traceback.format_exception_only(type(e), e))[:400]
        res["trace"] = traceback.format_exc()[-1500:]
    res["wall"] = round(time.time() - t0, 3)
    return res


def main(argv):
    import threading
    sys.setrecursionlimit(200000)
    threading.stack_size(512 * 1024 * 1024)
    t = threading.Thread(target=_main, args=(argv,))
    t.start()
    t.join()


def _main(argv):
    spec, out = argv[1], argv[2]
    from vf.obl import Obligation
    obs = [Obligation.from_json(d) for d in json.load(open(spec))]
    with open(out, "a") as f:
        for ob in obs:
            f.write(json.dumps(run_one(ob)) + "\n")
            f.flush()


if __name__ == "__main__":
    main(sys.argv)
