"""Obligation scheduler, verdict mapping, replay, known findings, evidence."""
import argparse
import hashlib
import importlib
import inspect
import json
import os
import queue
import shutil
import subprocess
import sys
import tempfile
import threading
import time

ROOT = os.path.dirname(os.path.dirname(os.path.abspath(__file__)))
PY = os.path.join(ROOT, ".venv", "bin", "python")
REPO_SRC = os.environ.get("VF_REPO_SRC", "/repo/src")  # override only for seeded-change trials in scratch worktrees


def _env():
    env = dict(os.environ)
    env["PYTHONPATH"] = os.pathsep.join([ROOT, REPO_SRC])
    env["PYTHONDONTWRITEBYTECODE"] = "1"
    env["PYTHONHASHSEED"] = "0"
    env["PYCEL_VERIF"] = "1"
    return env


def load_known():
    path = os.path.join(ROOT, "known_findings.json")
    if not os.path.exists(path):
        return {}
    data = json.load(open(path))
    return {f["id"]: f for f in data.get("findings", [])}


def resolve_encoded(names):
    """function names -> file, line range; plus sha256 of the source files involved"""
    out, files = [], {}
    for n in names:
        modname, _, qual = n.partition(":")
        try:
            obj = importlib.import_module(modname)
            for part in qual.split("."):
                if part:
                    obj = getattr(obj, part)
            if isinstance(obj, property):
                obj = obj.fget
            obj = inspect.unwrap(obj) if callable(obj) else obj
            src, start = inspect.getsourcelines(obj)
            f = inspect.getsourcefile(obj)
            out.append({"function": n, "file": f, "lines": [start, start + len(src) - 1]})
            files[f] = None
        except Exception as e:  # noqa
            out.append({"function": n, "error": repr(e)[:200]})
    for f in files:
        files[f] = hashlib.sha256(open(f, "rb").read()).hexdigest()
    return out, files


def _die_with_parent():
    """workers are killed when the runner dies (PR_SET_PDEATHSIG)"""
    try:
        import ctypes
        import signal
        ctypes.CDLL("libc.so.6").prctl(1, signal.SIGKILL)
    except Exception:  # noqa
        pass


def _run_chunk(chunk, workdir, idx, engine):
    spec = os.path.join(workdir, f"spec_{idx}.json")
    out = os.path.join(workdir, f"out_{idx}.jsonl")
    json.dump([o.to_json() for o in chunk], open(spec, "w"))
    mod = "vf.xworker" if engine == "X" else "vf.kworker"
    budget = sum(o.timeout * 1.4 + 10 for o in chunk) * 1.5 + 60
    t0 = time.time()
    try:
        p = subprocess.run([PY, "-m", mod, spec, out, workdir], env=_env(), cwd=ROOT, preexec_fn=_die_with_parent,
                           stdout=subprocess.PIPE, stderr=subprocess.PIPE, timeout=budget)
        err = p.stderr.decode(errors="replace")[-2000:] if p.returncode else ""
    except subprocess.TimeoutExpired:
        err = f"worker exceeded {budget:.0f}s"
    results = {}
    if os.path.exists(out):
        for line in open(out):
            try:
                r = json.loads(line)
                results[r["oid"]] = r
            except Exception:  # noqa
                pass
    for o in chunk:
        if o.oid not in results:
            results[o.oid] = {"oid": o.oid, "engine": engine, "verdict": "INCONCLUSIVE",
                              "detail": "no result from worker: " + err[-600:], "wall": time.time() - t0}
    return results


def schedule(obs, jobs, workdir):
    """dynamic scheduling of obligations over `jobs` worker subprocesses"""
    q = queue.Queue()
    # long obligations first, singly; short ones in chunks of 3 (amortise interpreter start-up)
    obs = sorted(obs, key=lambda o: -o.timeout)
    i, n = 0, 0
    while i < len(obs):
        o = obs[i]
        size = 1 if o.timeout > 45 else 3
        chunk = [o]
        j = i + 1
        while j < len(obs) and len(chunk) < size and obs[j].engine == o.engine:
            chunk.append(obs[j])
            j += 1
        q.put((n, chunk))
        n += 1
        i = j
    results, lock = {}, threading.Lock()

    def work():
        while True:
            try:
                idx, chunk = q.get_nowait()
            except queue.Empty:
                return
            r = _run_chunk(chunk, workdir, idx, chunk[0].engine)
            with lock:
                results.update(r)
    threads = [threading.Thread(target=work) for _ in range(max(1, jobs))]
    for t in threads:
        t.start()
    for t in threads:
        t.join()
    return results


def replay(ob, cex, timeout=300):
    """re-execute the harness body on the concrete counterexample in plain CPython"""
    spec = {"obligation": ob.to_json(), "args": cex}
    p = subprocess.run([PY, "-m", "vf.replay", "-"], input=json.dumps(spec).encode(), env=_env(), cwd=ROOT,
                       stdout=subprocess.PIPE, stderr=subprocess.PIPE, timeout=timeout)
    try:
        return json.loads(p.stdout.decode().strip().splitlines()[-1])
    except Exception:  # noqa
        return {"reproduced": None, "outcome": "replay crashed: " + p.stderr.decode(errors="replace")[-500:]}


def main(argv=None):
    ap = argparse.ArgumentParser()
    ap.add_argument("prop")
    ap.add_argument("--tier", default=os.environ.get("VERIF_TIER", "quick"))
    ap.add_argument("--replay")
    ap.add_argument("--only", help="substring filter on obligation ids (debugging)")
    ap.add_argument("--jobs", type=int, default=int(os.environ.get("VERIF_JOBS", "0")) or (os.cpu_count() or 4))
    ap.add_argument("--no-evidence", action="store_true")
    args = ap.parse_args(argv)
    tier = args.tier if args.tier in ("quick", "thorough") else "quick"
    seed = int(os.environ.get("VERIF_SEED", "0") or 0)
    prop = args.prop
    sys.path.insert(0, ROOT)
    if REPO_SRC not in sys.path:
        sys.path.insert(1, REPO_SRC)
    from vf.obl import Obligation

    if args.replay:
        spec = json.load(open(args.replay))
        ob = Obligation.from_json(spec["obligation"])
        rmod = importlib.import_module(ob.module)
        rdir = tempfile.mkdtemp(prefix=f"vf_{prop}_replay_")
        try:
            if getattr(rmod, "prepare", None):
                rmod.prepare("quick", rdir)
            r = replay(ob, spec["args"])
        finally:
            shutil.rmtree(rdir, ignore_errors=True)
        print(json.dumps(r, indent=1))
        if r.get("reproduced"):
            print(f"VIOLATION property={prop} replay={args.replay}")
            return 1
        return 0

    t0 = time.time()
    mod = importlib.import_module(f"vf.props.{prop}")
    try:
        obs = mod.obligations(tier, seed)
    except TypeError:
        obs = mod.obligations(tier)
    if args.only:
        obs = [o for o in obs if args.only in o.oid]
    ids = [o.oid for o in obs]
    assert len(ids) == len(set(ids)), "duplicate obligation ids"
    known = load_known()
    workdir = tempfile.mkdtemp(prefix=f"vf_{prop}_")
    try:
        return _run(args, mod, prop, tier, seed, obs, known, workdir, t0)
    finally:
        shutil.rmtree(workdir, ignore_errors=True)


def _run(args, mod, prop, tier, seed, obs, known, workdir, t0):
    pre = getattr(mod, "prepare", None)
    side = pre(tier, workdir) if pre else None
    results = schedule(obs, args.jobs, workdir)

    violations, known_hits, inconclusive, confirmed, replayed = [], [], [], [], 0
    rdir = os.path.join(os.environ.get("VF_REPLAY_DIR") or os.path.join(ROOT, "replays"), prop)
    for o in obs:
        r = results[o.oid]
        if r["verdict"] == "REFUTED":
            rr = replay(o, r["cex"])
            replayed += 1
            r["replay"] = rr
            if rr.get("reproduced"):
                if o.known and o.known in known and known[o.known].get("status", "open") == "open":
                    known_hits.append((o, r))
                    r["verdict"] = "KNOWN-FINDING"
                else:
                    os.makedirs(rdir, exist_ok=True)
                    safe = "".join(c if c.isalnum() else "_" for c in o.oid)[:80]
                    path = os.path.join(rdir, f"{safe}.json")
                    json.dump({"property": prop, "obligation": o.to_json(), "args": r["cex"],
                               "detail": r.get("detail"), "replay_outcome": rr}, open(path, "w"), indent=1)
                    r["replay_file"] = path
                    violations.append((o, r, path))
                    r["verdict"] = "VIOLATION"
            else:
                r["verdict"] = "INCONCLUSIVE"
                r["detail"] = "counterexample did not reproduce on the real code (engine/model fault): " + \
                    json.dumps(r.get("cex"))[:200] + " -> " + str(rr.get("outcome"))[:200]
        if r["verdict"] == "INCONCLUSIVE":
            inconclusive.append((o, r))
        elif r["verdict"] == "CONFIRMED":
            confirmed.append((o, r))

    # concrete fixture self-checks of the property module (reported with a replay description)
    side_viol = 0
    for i, f in enumerate((side or {}).get("fixture_self_check_failures", [])):
        kid = f.get("known")
        if kid and kid in known and known[kid].get("status", "open") == "open":
            if kid not in {o.known for o, _ in known_hits}:
                print(f"KNOWN-FINDING: property={prop} {kid}: {known[kid].get('what', '')} [fixture self-check {json.dumps(f)[:200]}]")
            continue
        os.makedirs(rdir, exist_ok=True)
        path = os.path.join(rdir, f"selfcheck_{i}.json")
        json.dump({"property": prop, "fixture_self_check": f}, open(path, "w"), indent=1)
        print(f"VIOLATION property={prop} replay={path}")
        print(f"  fixture self-check failed: {json.dumps(f)[:400]}")
        side_viol += 1
    for o, r in inconclusive:
        print(f"INCONCLUSIVE property={prop} obligation={o.oid} {str(r.get('detail'))[:300]}")
    seen = set()
    for o, r in known_hits:
        if o.known in seen:
            continue
        seen.add(o.known)
        print(f"KNOWN-FINDING: property={prop} {o.known}: {known[o.known].get('what', '')} "
              f"[{o.oid} args={json.dumps(r['cex'])[:160]}]")
    for o, r, path in violations:
        print(f"VIOLATION property={prop} replay={path}")
        print(f"  obligation={o.oid} args={json.dumps(r['cex'])[:300]} :: {str(r.get('detail'))[:300]}")

    wall = time.time() - t0
    if os.environ.get("VERIF_TIMING"):
        for o in sorted(obs, key=lambda o: -float(results[o.oid].get("wall", 0)))[:12]:
            print("TIMING", o.oid, results[o.oid].get("wall"), results[o.oid].get("paths"), results[o.oid]["verdict"])
    if not args.no_evidence and not args.only:
        write_evidence(mod, prop, tier, seed, obs, results, confirmed, inconclusive, known_hits, violations,
                       replayed, wall, side)
    print(f"{prop} [{tier}] obligations={len(obs)} confirmed={len(confirmed)} known-findings={len(known_hits)} "
          f"inconclusive={len(inconclusive)} violations={len(violations)} wall={wall:.1f}s")
    return 1 if (violations or side_viol) else 0


def write_evidence(mod, prop, tier, seed, obs, results, confirmed, inconclusive, known_hits, violations,
                   replayed, wall, side):
    from vf import chplugin
    level = getattr(mod, "LEVEL", "model_checking")
    enc, files = resolve_encoded(getattr(mod, "ENCODES", []))
    paths = sum(int(r.get("paths", 0)) + int(r.get("twin_paths", 0)) for r in results.values())
    checks = sum(int(r.get("z3_checks", 0)) for r in results.values())
    zsec = sum(float(r.get("z3_seconds", 0)) for r in results.values())
    samples = []
    for o in obs[:: max(1, len(obs) // 12)][:14]:
        r = results[o.oid]
        samples.append({"obligation": o.oid, "function": f"{o.module}.{o.func}", "params": repr(o.params),
                        "asserts": o.desc or (getattr(importlib.import_module(o.module), o.func).__doc__ or "").strip()[:200],
                        "verdict": r["verdict"], "paths": r.get("paths"), "z3_checks": r.get("z3_checks"),
                        "twin": r.get("twin"), "wall_s": r.get("wall")})
    cov = {
        "evaluations": len(obs),
        "distinct_nontrivial": len(confirmed),
        "rule": "one evaluation = one obligation (harness body x concrete parameters) decided by the solver over all "
                "symbolic arguments within the stated bounds; non-trivial = verdict CONFIRMED (path tree exhausted, "
                "every path's negated assertion unsat) AND its reachability twin (same preconditions, postcondition "
                "'unreachable') was refuted; obligation ids are unique",
        "samples": samples,
        "states": max(1, paths),
        "transitions": max(1, checks),
        "traces_validated_against_impl": replayed + int((side or {}).get("validated_rows", 0)),
        "obligations": len(obs),
        "discharged": len(confirmed),
        "confirmed": len(confirmed),
        "inconclusive": len(inconclusive),
        "inconclusive_ids": [o.oid for o, _ in inconclusive][:40],
        "known_findings_reproduced": sorted({o.known for o, _ in known_hits}),
        "violations": [o.oid for o, _, _ in violations],
        "symbolic_paths_explored": paths,
        "solver_queries": checks,
        "solver_seconds": round(zsec, 2),
        "functions_encoded": enc,
        "source_sha256": files,
        "bounds": getattr(mod, "BOUNDS", []),
        "engine_models": chplugin.MODELS + getattr(mod, "EXTRA_MODELS", []),
        "states_transitions_meaning": "states = symbolic paths (path-condition classes) explored by CrossHair/astz3; "
                                      "transitions = SMT check() calls deciding branch feasibility or assertions",
        "exhaustive": False,
    }
    if side:
        cov["concrete_side_checks"] = side
    if level == "translation_validation":
        cov["programs"] = max(1, len({o.params for o in obs}))
        cov["disagreements_checked"] = replayed
    ev = {
        "property_id": prop, "tier": tier, "seed": seed, "level": level, "coverage": cov,
        "assumptions": getattr(mod, "ASSUMPTIONS", []) + [
            "z3 5.1 verdicts; CrossHair 0.0.110 proxy semantics for int/bool/str/tuple/None (+ plugin models listed in coverage.engine_models)",
            "claims hold only inside coverage.bounds; INCONCLUSIVE obligations are not counted as discharged",
        ],
        "wall_s": round(wall, 2), "violations": len(violations),
    }
    os.makedirs(os.path.join(ROOT, "evidence"), exist_ok=True)
    json.dump(ev, open(os.path.join(ROOT, "evidence", f"{prop}.json"), "w"), indent=1, default=str)


if __name__ == "__main__":
    try:
        rc = main()
    except SystemExit:
        raise
    except BaseException as e:  # noqa  harness fault: never disguised as a verdict
        import traceback
        traceback.print_exc()
        print("HARNESS-ERROR", repr(e)[:300])
        rc = 2
    sys.exit(rc)
