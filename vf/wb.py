"""Workbook templates, model construction in every configuration, substitution wrapper and the
from-scratch oracle used by the compiler properties (C01, C03, C05, C06, C08, C09, C12)."""
import logging
import os
import pickle

from crosshair.tracers import NoTracing, is_tracing
from openpyxl import Workbook
from openpyxl.worksheet.formula import ArrayFormula

from pycel.excelcompiler import ExcelCompiler
from pycel.excelutil import AddressRange
from pycel.excelwrapper import ExcelOpxWrapper, ExcelOpxWrapperNoData, ExcelWrapper

logging.disable(logging.CRITICAL)

SHEET = "Sheet"

# name -> cells (formulas as text, constants as values); CSE arrays as ("cse", ref, formula)
TEMPLATES = {
    "chain": {"A1": 1, "A2": 2, "B1": "=A1+A2", "C1": "=B1*2", "D1": '=C1&"|"&A1'},
    "diamond": {"A1": 3, "B1": "=A1+1", "B2": "=A1*2", "C1": "=B1+B2", "D1": "=ISBLANK(A1)"},
    "sumrange": {"A1": 1, "A2": 2, "A3": 3, "B1": "=SUM(A1:A3)", "C1": "=B1+A1", "D1": "=COUNT(A1:A3)"},
    "rangeform": {"A1": 1, "A2": "=A1+1", "A3": "=A2*2", "B1": "=SUM(A1:A3)", "C1": "=MAX(A2:A3)"},
    "nested": {"A1": 1, "A2": 2, "A3": 3, "A4": 4, "B1": "=SUM(A1:A2)", "B2": "=SUM(A1:A4)", "C1": "=B1+B2"},
    "cse": {"A1": 1, "A2": 2, "B1": ("cse", "B1:B2", "=A1:A2*2"), "C1": "=SUM(B1:B2)", "C2": "=B2+1"},
    "ifs": {"A1": 1, "A2": 5, "B1": "=IF(A1,A2,0-A2)", "B2": '=A1&""', "C1": "=B1+1", "C2": "=ISLOGICAL(A1)"},
    "name": {"A1": 2, "A2": 3, "B1": "=total*2", "C1": "=B1+A2", "__names__": {"total": "Sheet!$A$1"}},
    "cseiferr": {"A1": 1, "A2": 2, "A3": 3, "C1": "=IFERROR(A1:A3,9)", "E1": ("cse", "E1:E3", "=A1:A3*C1")},
    "unbounded": {"A1": 1, "A2": 2, "A3": 3, "B1": "=SUM(A:A)", "C1": "=B1+A1", "D1": "=MAX(2:2)+C1"},
    # a table at the same position on two sheets, column c is the this-row formula (numeric inputs first: the
    # header texts are not substituted)
    "tables": {"A2": 1, "B2": 2, "A3": 3, "B3": 4, "C2": "=[@a]+[@b]", "C3": "=[@a]-[@b]", "A1": "a", "B1": "b", "C1": "c",
               "D2": "=C2+C3",
               "__other__": {"A1": "a", "B1": "b", "C1": "c", "A2": 10, "B2": 20, "C2": "=[@a]+[@b]", "A3": 30, "B3": 40,
                             "C3": "=[@a]-[@b]"},
               "__tables__": {"Sheet": ("Costs", "A1:C3", "abc"), "Other": ("Sales", "A1:C3", "abc")}},
    "twosheet": {"A1": 1, "A2": 2, "B1": "=Other!A1+A1", "C1": "=SUM(Other!A1:A2)+B1",
                 "__other__": {"A1": 10, "A2": "=Sheet!A2*3", "A3": 7, "A4": "=A3+A1"}},
}


def addr(coord, sheet=SHEET):
    return f"{sheet}!{coord}"


def inputs_of(tname):
    t = TEMPLATES[tname]
    return tuple(c for c, v in t.items() if not c.startswith("__") and not (isinstance(v, str) and v.startswith("=")) and
                 not isinstance(v, tuple))


def formulas_of(tname):
    t = TEMPLATES[tname]
    out = []
    for c, v in t.items():
        if c.startswith("__"):
            continue
        if isinstance(v, tuple):
            rng = AddressRange(v[1])
            out.extend(a.coordinate for row in rng.rows for a in row)
        elif isinstance(v, str) and v.startswith("="):
            out.append(c)
    return tuple(out)


def all_cells(tname):
    cells = [addr(c) for c in inputs_of(tname) + formulas_of(tname)]
    other = TEMPLATES[tname].get("__other__")
    if other:
        cells.extend(addr(c, "Other") for c in other)
    return tuple(cells)


def make_workbook(tname, values_only=None):
    """openpyxl workbook of the template; values_only: dict address->value to store *instead of* formulas"""
    t = TEMPLATES[tname]
    wb = Workbook()
    ws = wb.active
    ws.title = SHEET
    sheets = {SHEET: {c: v for c, v in t.items() if not c.startswith("__")}}
    if "__other__" in t:
        wb.create_sheet("Other")
        sheets["Other"] = t["__other__"]
    for sname, cells in sheets.items():
        w = wb[sname]
        for c, v in cells.items():
            if isinstance(v, tuple):
                if values_only is not None:
                    rng = AddressRange(v[1])
                    for row in rng.rows:
                        for a in row:
                            w[a.coordinate] = values_only.get(addr(a.coordinate, sname))
                else:
                    w[c] = ArrayFormula(v[1], v[2])
            elif values_only is not None and isinstance(v, str) and v.startswith("="):
                w[c] = values_only.get(addr(c, sname))
            else:
                w[c] = v
    for sname, (tab, ref, cols) in t.get("__tables__", {}).items():
        from openpyxl.worksheet.table import Table, TableColumn
        table = Table(displayName=tab, ref=ref)
        table.tableColumns = [TableColumn(id=i, name=n) for i, n in enumerate(cols, start=1)]
        wb[sname].add_table(table)
    for name, dest in t.get("__names__", {}).items():
        from openpyxl.workbook.defined_name import DefinedName
        dn = DefinedName(name, attr_text=dest)
        try:
            wb.defined_names[name] = dn
        except TypeError:       # older openpyxl
            wb.defined_names.append(dn)
    return wb


class SubstWrapper(ExcelOpxWrapperNoData):
    """the template workbook as the environment, with the constants of chosen cells replaced by
    (possibly symbolic) values: a from-scratch view of "the same workbook with the current inputs" """

    def __init__(self, workbook, subst, filename="virt"):
        super().__init__(workbook, filename=filename)
        self.subst = dict(subst)

    def get_range(self, address):
        data = super().get_range(address)
        if not self.subst:
            return data
        if isinstance(data.values, tuple):
            rows = data.address.resolve_range if hasattr(data.address, "resolve_range") else None
            new = []
            changed = False
            for r, row in enumerate(data.values):
                nrow = []
                for c, val in enumerate(row):
                    a = rows[r][c].address if rows is not None else None
                    if a in self.subst:
                        nrow.append(self.subst[a])
                        changed = True
                    else:
                        nrow.append(val)
                new.append(tuple(nrow))
            if changed:
                return ExcelWrapper.RangeData.__new__(type(data), data.address, data.formula, tuple(new))
            return data
        a = data.address.address
        if a in self.subst:
            return ExcelWrapper.RangeData.__new__(type(data), data.address, data.formula, self.subst[a])
        return data


def notrace():
    """context manager: tracing off (no-op outside symbolic analysis, e.g. in replays)"""
    import contextlib
    return NoTracing() if is_tracing() else contextlib.nullcontext()


class StoredSubst(ExcelOpxWrapper):
    """stored-results wrapper (formulas workbook + data_only workbook) whose stored value of chosen cells is
    replaced by a (possibly symbolic) value"""

    def __init__(self, tname, subst):
        super().__init__("virt.xlsx")
        self.workbook = make_workbook(tname)
        self.workbook_dataonly = make_workbook(tname, values_only=dict(stored_values(tname)))
        self.load_array_formulas()
        self.subst = dict(subst)

    def get_range(self, address):
        data = super().get_range(address)
        if isinstance(data.values, tuple):
            rows = AddressRange(data.address).rows if ":" in str(data.address) else None
            if rows is None:
                return data
            new, changed = [], False
            for row_addr, row in zip(rows, data.values):
                nrow = []
                for a, val in zip(row_addr, row):
                    if a.address in self.subst:
                        nrow.append(self.subst[a.address])
                        changed = True
                    else:
                        nrow.append(val)
                new.append(tuple(nrow))
            if changed:
                return ExcelWrapper.RangeData.__new__(type(data), data.address, data.formula, tuple(new))
            return data
        a = data.address.address
        if a in self.subst:
            return ExcelWrapper.RangeData.__new__(type(data), data.address, data.formula, self.subst[a])
        return data


def _untraced(fn):
    def wrapper(*a, **kw):
        if is_tracing():
            with NoTracing():
                return fn(*a, **kw)
        return fn(*a, **kw)
    return wrapper


@_untraced
def build_nodata(tname, cycles=None):
    return ExcelCompiler(excel=make_workbook(tname), cycles=cycles)


_STORED = {}


@_untraced
def stored_values(tname):
    """consistent stored results of the template (computed once, concretely, by a scratch compile)"""
    if tname not in _STORED:
        m = ExcelCompiler(excel=make_workbook(tname))
        vals = {}
        for a in all_cells(tname):
            try:
                vals[a] = m.evaluate(a)
            except Exception:  # noqa  (templates with an unknown function: no stored result)
                vals[a] = None
        _STORED[tname] = vals
    return _STORED[tname]


@_untraced
def build_stored(tname, perturb=None, cycles=None):
    """model of an .xlsx with stored results: a real ExcelOpxWrapper over two in-memory workbooks
    (formulas / data_only values)"""
    vals = dict(stored_values(tname))
    if perturb:
        vals.update(perturb)
    w = ExcelOpxWrapper("virt.xlsx")
    w.workbook = make_workbook(tname)
    w.workbook_dataonly = make_workbook(tname, values_only=vals)
    w.load_array_formulas()
    return ExcelCompiler(excel=w, cycles=cycles)


_FILES = {}


def prepare_files(workdir, tnames, kinds=("yml", "json", "pkl"), cycles=None):
    """save an evaluated no-data model of each template in each format (file writes happen here,
    outside symbolic analysis)"""
    for t in tnames:
        for k in kinds:
            m = ExcelCompiler(excel=make_workbook(t), cycles=cycles)
            for a in all_cells(t):
                m.evaluate(a)
            base = os.path.join(workdir, f"{t}_{'c' if cycles else 'n'}_{k}_file")
            m.to_file(base + "." + k)
            _FILES[(t, k, bool(cycles))] = base + "." + k


@_untraced
def build_from_file(tname, kind, workdir=None, cycles=None):
    key = (tname, kind, bool(cycles))
    if key not in _FILES:
        d = workdir or os.environ.get("VF_FILES_DIR")
        path = os.path.join(d, f"{tname}_{'c' if cycles else 'n'}_{kind}_file.{kind}")
        _FILES[key] = path
    return ExcelCompiler.from_file(_FILES[key])


def build(tname, config, cycles=None):
    if config == "nodata":
        return build_nodata(tname, cycles=cycles)
    if config == "stored":
        return build_stored(tname, cycles=cycles)
    return build_from_file(tname, config, cycles=cycles)


_ORACLES = {}


@_untraced
def _oracle_model(tname):
    """an independent, fully built and compiled model of the template (one per worker process; its
    state is completely rewritten on every use)"""
    if tname not in _ORACLES:
        m = ExcelCompiler(excel=make_workbook(tname))
        for a in all_cells(tname):
            m.evaluate(a)
        _ORACLES[tname] = m
    m = _ORACLES[tname]
    t = TEMPLATES[tname]
    for a, cell in m.cell_map.items():
        if ":" in a or cell.formula:
            cell.value = None           # every range and formula value dropped: full recompute
    for c in inputs_of(tname):
        m.cell_map[addr(c)].value = t[c]
    for c, v in t.get("__other__", {}).items():
        if not (isinstance(v, str) and v.startswith("=")):
            m.cell_map[addr(c, "Other")].value = v
    return m


def oracle(tname, current):
    """full recompute: the current input values are written straight into the cell map of an independent
    model whose every formula and range value has been dropped (no reset logic, no dependency graph
    involved), then every cell is evaluated by the same formula evaluator.  For written (non-computed)
    references this is the value a from-scratch compile with the current inputs produces."""
    m = _oracle_model(tname)
    for a, v in current.items():
        m.cell_map[a].value = v
    return {a: m.evaluate(a) for a in all_cells(tname)}


_ORACLES_P = {}


def oracle_with(tname, current, plugins=(), pre=None):
    """full recompute as oracle(), for templates whose formulas use plugin functions"""
    key = (tname, tuple(plugins))
    with notrace():
        if key not in _ORACLES_P:
            if pre:
                pre()
            m = ExcelCompiler(excel=make_workbook(tname), plugins=tuple(plugins))
            for a in all_cells(tname):
                try:
                    m.evaluate(a)
                except Exception:  # noqa  (unknown-function templates)
                    pass
            _ORACLES_P[key] = m
        m = _ORACLES_P[key]
        t = TEMPLATES[tname]
        for a, cell in m.cell_map.items():
            if ":" in a or cell.formula:
                cell.value = None
        for c in inputs_of(tname):
            m.cell_map[addr(c)].value = t[c]
    if pre:
        pre()
    for a, v in current.items():
        m.cell_map[a].value = v
    out = {}
    for a in all_cells(tname):
        try:
            out[a] = m.evaluate(a)
        except Exception:  # noqa
            out[a] = None
    return out


@_untraced
def scratch_oracle(tname, current):
    """concrete from-scratch compile with substituted constants (used by replays / self-tests only)"""
    m = ExcelCompiler(excel=SubstWrapper(make_workbook(tname), current))
    return {a: m.evaluate(a) for a in all_cells(tname)}
