"""C03 Persisted models are observationally equivalent to the model that was saved.

Solver part (Engine X): for template x {yml, json, pkl} x {cycles off, on} x {module state as left by the
saving code, module state of a new process/thread} the reloaded model and the original are driven through
the same set_value/evaluate history with symbolic values; every evaluate must agree (exceptions included).
Fixture self-checks (concrete, reported as concrete_side_checks; a failure is reported with a replay): saving
is deterministic and idempotent, save->load->save reproduces the content, settings/filename/hash/extra_data
survive, a pool of awkward constants survives, a stale pickle is rebuilt after a change.
"""
import hashlib
import json
import os
import threading
from typing import Optional

from pycel.excelcompiler import ExcelCompiler

from vf import wb
from vf.obl import Obligation
from vf.props.C01 import _eq, value_of, skeletons

PROP = "C03"
LEVEL = "model_checking"
ENCODES = ["pycel.excelcompiler:ExcelCompiler.from_file", "pycel.excelcompiler:ExcelCompiler._from_text",
           "pycel.excelcompiler:_CompiledImporter", "pycel.excelcompiler:ExcelCompiler.__setstate__",
           "pycel.excelformula:ExcelFormula.__init__", "pycel.excelcompiler:ExcelCompiler.set_value",
           "pycel.excelcompiler:ExcelCompiler._evaluate", "pycel.excelutil:_IterativeEvalTracker"]
BOUNDS = ["templates chain, sumrange, rangeform, cse, ifs (quick) / all; formats yml, json, pkl; cycles off and on; module state "
          "kept or re-created (thread-local singletons of excelutil replaced before loading, as in a new process)",
          "post-load histories: 1..2 writes with an evaluate in between, values {number, logical, blank, text}, ints |v|<=99",
          "NOT decided by the solver (no symbolic path through ruamel/json/pickle/file I/O): the round trip of arbitrary cell text; "
          "covered only by the concrete constant pool of the fixture self-checks"]
ASSUMPTIONS = ["floats as exact reals", "files are written before the analysis starts (CrossHair's audit wall blocks writes during analysis)"]

CYC = {"iterations": 10, "tolerance": 0.001}


def _fresh_module_state():
    import pycel.excelutil as U
    with wb.notrace():
        U._IterativeEvalTracker._ns = threading.local()
        U._ArrayFormulaContext._ns = threading.local() if hasattr(U._ArrayFormulaContext, "_ns") else None
        if hasattr(U.in_array_formula_context, "_ns") and not hasattr(U._ArrayFormulaContext, "_ns"):
            U.in_array_formula_context._ns = threading.local()


def _drive(m, tname, skel, vals):
    """run the history, collect every observation (value or exception class)"""
    inputs, cells = wb.inputs_of(tname), wb.all_cells(tname)
    obs, si = [], 0
    for op, idx in skel:
        try:
            if op == "s":
                m.set_value(wb.addr(inputs[idx]), vals[si])
                si += 1
                obs.append(("set", None))
            else:
                obs.append(("val", m.evaluate(cells[idx])))
        except Exception as e:  # noqa
            obs.append(("exc", type(e).__name__))
            if op == "s":
                si += 1
    for a in cells:
        try:
            obs.append(("val", m.evaluate(a)))
        except Exception as e:  # noqa
            obs.append(("exc", type(e).__name__))
    return obs


def ob_equiv(tname, kind, cycles, fresh, skel, k0: int = 0, v0: int = 0, k1: int = 0, v1: int = 0) -> Optional[bool]:
    """the reloaded model reacts to the history exactly as the original does"""
    ks, vs = (k0, k1), (v0, v1)
    n = sum(1 for op, _ in skel if op == "s")
    vals = []
    for i in range(n):
        if not (0 <= ks[i] <= 3 and -99 <= vs[i] <= 99):
            return None
        vals.append(value_of(ks[i], vs[i]))
    cyc = CYC if cycles else None
    with wb.notrace():
        orig = wb.build_nodata(tname, cycles=cyc)
        for _ in range(2 if cycles else 1):
            for a in wb.all_cells(tname):
                orig.evaluate(a)
    a = _drive(orig, tname, skel, vals)
    if fresh:
        _fresh_module_state()
    loaded = wb.build_from_file(tname, kind, cycles=cyc)
    b = _drive(loaded, tname, skel, vals)
    if len(a) != len(b):
        return False
    for (ka, xa), (kb, xb) in zip(a, b):
        if ka != kb:
            return False
        if ka == "val" and not _eq(xa, xb):
            return False
        if ka == "exc" and xa != xb:
            return False
    return True


# ---------------------------------------------------------------- fixture self-checks (concrete)
POOL = (1e-7, 1e22, -0.0, 0.1 + 0.2, 2 / 3, 123456789012345678, "yes", "no", "null", "~", "1e3", "0x1F", "=notformula",
        "a: b", "- item", "#comment", "multi\nline", "tab\there", "quote\"s'", "{brace}", "[1, 2]", "unicode é中\U0001f600",
        " lead", "trail ", "", "True", "1.0", "007", True, False, 0, 0.5)


def _sha(path):
    return hashlib.sha256(open(path, "rb").read()).hexdigest()


def side_checks(workdir):
    """returns (number run, list of failures as dicts)"""
    from openpyxl import Workbook
    fails, n = [], 0

    def fail(name, **kw):
        fails.append(dict(check=name, **kw))
    for kind in ("yml", "json"):
        for cycles in (None, CYC):
            m = wb.build_nodata("sumrange", cycles=cycles)
            for a in wb.all_cells("sumrange"):
                m.evaluate(a)
            m.extra_data = None
            base = os.path.join(workdir, f"side_{kind}_{'c' if cycles else 'n'}_file.{kind}")
            m.to_file(base)
            h1 = _sha(base)
            m.to_file(base)
            n += 1
            if _sha(base) != h1:
                fail("second to_file leaves the text byte-identical", kind=kind, cycles=bool(cycles))
            l = ExcelCompiler.from_file(base)
            base2 = os.path.join(workdir, f"side2_{kind}_{'c' if cycles else 'n'}_file.{kind}")
            l.to_file(base2)
            n += 1
            t1, t2 = open(base).read(), open(base2).read()
            if kind == "json":
                same = json.loads(t1)["cell_map"] == json.loads(t2)["cell_map"]
            else:
                same = t1.split("cell_map:")[1].split("filename:")[0] == t2.split("cell_map:")[1].split("filename:")[0]
            if not same:
                fail("save -> load -> save reproduces the cell map text", kind=kind, cycles=bool(cycles))
            n += 1
            if bool(l.cycles) != bool(m.cycles) or (m.cycles and dict(l.cycles) != dict(m.cycles)):
                fail("iteration settings survive", kind=kind, saved=str(m.cycles), loaded=str(l.cycles))
            n += 1
            if l.filename != m.filename or l._excel_file_md5_digest != m._excel_file_md5_digest:
                fail("workbook file name and source hash survive", kind=kind)
    # user extra_data
    m = wb.build_nodata("chain")
    m.evaluate(wb.addr("D1"))
    m.extra_data = {"note": "keep me", "n": 3}
    p = os.path.join(workdir, "side_extra_file.yml")
    m.to_file(p)
    l = ExcelCompiler.from_file(p)
    n += 1
    if not l.extra_data or l.extra_data.get("note") != "keep me" or l.extra_data.get("n") != 3:
        fail("extra_data survives", loaded=str(l.extra_data))
    # awkward constants
    for kind in ("yml", "json", "pkl"):
        book = Workbook()
        ws = book.active
        ws.title = "Sheet"
        for i, v in enumerate(POOL, 1):
            ws[f"A{i}"] = v
            ws[f"B{i}"] = f"=A{i}"
        m = ExcelCompiler(excel=book)
        orig = {i: m.evaluate(f"Sheet!A{i}") for i in range(1, len(POOL) + 1)}
        for i in range(1, len(POOL) + 1):
            m.evaluate(f"Sheet!B{i}")
        p = os.path.join(workdir, f"side_pool_file.{kind}")
        m.to_file(p)
        l = ExcelCompiler.from_file(p)
        for i in range(1, len(POOL) + 1):
            n += 1
            got = l.evaluate(f"Sheet!A{i}")
            o = orig[i]
            import math

            def fam(x):
                return "bool" if isinstance(x, bool) else "int" if isinstance(x, int) else "float" if isinstance(x, float) \
                    else "str" if isinstance(x, str) else type(x).__name__
            ok = fam(got) == fam(o) and got == o
            if ok and isinstance(o, float):
                ok = math.copysign(1, got) == math.copysign(1, o) and float(got).hex() == float(o).hex()
            if ok and isinstance(o, str):
                ok = str(got) == o
            if not ok:
                known = "C03-json-nonbmp" if (kind in ("json", "pkl") and isinstance(o, str) and any(ord(c) > 0xFFFF for c in o)) else None
                fail("constant survives the round trip", kind=kind, cell=f"A{i}", saved=repr(o), loaded=repr(got), known=known)
    # a changed model rewrites a stale pickle (large text file: the change is in the middle)
    book = Workbook()
    ws = book.active
    ws.title = "Sheet"
    N = 9000
    for i in range(1, N + 1):
        ws[f"A{i}"] = 7000 + i % 1000
        ws[f"B{i}"] = f"=A{i}*2"
    m = ExcelCompiler(excel=book)
    for i in (1, N // 2, N):
        m.evaluate(f"Sheet!B{i}")
    m.evaluate(f"Sheet!A1:B{N}")
    base = os.path.join(workdir, "side_big_file")
    m.to_file(base)                       # pkl + yml
    mid = f"Sheet!A{N // 2}"
    old = m.evaluate(mid)
    m.set_value(mid, 9999 if old != 9999 else 9998)
    m.to_file(base)
    l = ExcelCompiler.from_file(base)     # prefers the pickle
    n += 1
    if l.evaluate(mid) != m.evaluate(mid) or l.evaluate(f"Sheet!B{N // 2}") != m.evaluate(f"Sheet!B{N // 2}"):
        fail("a changed model rewrites the pickle", size=os.path.getsize(base + ".yml"),
             saved=str(m.evaluate(mid)), loaded=str(l.evaluate(mid)))
    return n, fails


def prepare(tier, workdir):
    os.environ["VF_FILES_DIR"] = workdir
    wb.prepare_files(workdir, list(wb.TEMPLATES))
    wb.prepare_files(workdir, list(wb.TEMPLATES), cycles=CYC)
    n, fails = side_checks(workdir)
    return {"fixture_self_checks_run": n, "fixture_self_check_failures": fails, "validated_rows": n}


def obligations(tier):
    obs = []
    templates = ("chain", "sumrange", "rangeform", "cse", "ifs") if tier == "quick" else tuple(
        t for t in wb.TEMPLATES if not t.startswith(("f_", "v_", "cyc")))
    for t in templates:
        for kind in ("yml", "json", "pkl"):
            for cycles in (False, True):
                for fresh in (False, True):
                    if tier == "quick" and kind == "json" and (cycles or fresh) and t != "chain":
                        continue
                    for nsets in (1, 2):
                        if nsets == 2 and (tier == "quick" and not (t in ("sumrange", "chain") and kind != "json")):
                            continue
                        for tag, seq, mid, sk in skeletons(t, nsets, "thorough"):
                            if tag != "all":
                                continue
                            if nsets == 2 and (seq, mid is not None) != ((0, 1), True):
                                continue
                            if nsets == 1 and seq[0] > 0 and tier == "quick":
                                continue
                            sk2 = tuple(x for x in sk if x[0] == "s" or sk.index(x) >= len(wb.all_cells(t)))
                            sig = ", ".join(f"k{i}: int, v{i}: int" for i in range(nsets))
                            oid = f"equiv[{t}/{kind}/{'iter' if cycles else 'plain'}/{'fresh' if fresh else 'warm'}/set{''.join(map(str, seq))}]"
                            obs.append(Obligation(PROP, oid, __name__, "ob_equiv", (t, kind, cycles, fresh, sk2),
                                                  timeout=300 if tier == "quick" else 1200, float_mode="real", sig=sig, group=t))
    return obs
