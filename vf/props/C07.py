"""C07 Evaluations on different threads are isolated from each other.

Real threads cannot run under symbolic tracing.  The check uses the standard sequentialisation: both
workloads run on one OS thread, "thread identity" is a harness variable, and the threading.local objects
held by pycel's singletons are replaced by a model keyed on that identity (per-thread attribute
namespace; attributes not set per thread fall back to the class of the original local object, exactly as
threading.local does).  At workload A's j-th cell evaluation (j symbolic) the identity switches and
workload B runs to completion, then A resumes.  Outside symbolic analysis (replay) the same harness runs
B on a real second thread with the real threading.local objects.
"""
import threading
from typing import Optional

import pycel.excelutil as U
from pycel.excelcompiler import ExcelCompiler

from vf import wb
from vf.obl import Obligation
from vf.props.C01 import _eq
from vf.props import C06  # noqa: F401  (cycle templates)

PROP = "C07"
LEVEL = "model_checking"
ENCODES = ["pycel.excelutil:_IterativeEvalTracker", "pycel.excelutil:_ArrayFormulaContext",
           "pycel.excelformula:ExcelFormula.build_eval_context", "pycel.excelcompiler:ExcelCompiler._evaluate_iterative",
           "pycel.excelcompiler:_CycleCell", "pycel.excelcompiler:ExcelCompiler._evaluate"]
BOUNDS = ["workload kinds {iterative 2-cell cycle, CSE array formula, plain chain} pairwise; the second workload runs to completion "
          "inside the j-th cell evaluation of the first, j symbolic 1..4",
          "iterative settings of both workloads symbolic: iterations 1..2 (1..3 for the first of two iterative workloads, whose partner then has fixed input and pass count), tolerance a symbolic choice from {0.5, 5}; inputs symbolic ints |v|<=3",
          "fresh thread: load / evaluate / set_value / trim_graph on an identity with an empty thread-local namespace",
          "overlap schedules on two real threads: A symbolic on the analysed thread, B concrete on a helper thread that is held inside one of "
          "its formula evaluations while A runs to completion (A enters first); kinds {CSE array, plain, iterative} pairwise",
          "NOT covered: preemption inside a library function, more than one suspension point, data races on _Cell.ctr"]
ASSUMPTIONS = ["model of threading.local: per-identity attribute namespace, initially empty, class attributes shared",
               "floats as exact reals"]
EXTRA_MODELS = ["threading.local objects of _IterativeEvalTracker._ns and _ArrayFormulaContext._ns replaced by an identity-keyed namespace"]

CUR = ["A"]


class FakeLocal:
    """threading.local model: one attribute namespace per identity; class-level attributes of the original object's
    class stay shared (as with a threading.local subclass)"""

    def __init__(self, orig):
        object.__setattr__(self, "_orig_cls", type(orig))
        object.__setattr__(self, "_store", {})

    def _ns(self):
        return self._store.setdefault(CUR[0], {})

    def __getattr__(self, name):
        ns = object.__getattribute__(self, "_store").setdefault(CUR[0], {})
        if name in ns:
            return ns[name]
        cls = object.__getattribute__(self, "_orig_cls")
        if cls is not threading.local and hasattr(cls, name):
            return getattr(cls, name)
        raise AttributeError(name)

    def __setattr__(self, name, value):
        self._ns()[name] = value

    def __delattr__(self, name):
        del self._ns()[name]


class sequentialised:
    """install / remove the identity-keyed locals"""

    def __enter__(self):
        self.saved = (U._IterativeEvalTracker._ns, U._ArrayFormulaContext._ns)
        if wb.is_tracing():
            with wb.notrace():
                U._IterativeEvalTracker._ns = FakeLocal(self.saved[0])
                U._ArrayFormulaContext._ns = FakeLocal(self.saved[1])
        CUR[0] = "A"
        return self

    def __exit__(self, *a):
        U._IterativeEvalTracker._ns, U._ArrayFormulaContext._ns = self.saved
        CUR[0] = "A"


def _workload(kind, v, it, tolsel):
    """(model, run) : run() performs the evaluation and returns the observed results"""
    tol = 0.5 if tolsel else 5
    if kind == "iter":
        with wb.notrace():
            m = ExcelCompiler(excel=wb.SubstWrapper(wb.make_workbook("cyc2"), {}), cycles=True)
        m.excel.subst[wb.addr("A1")] = v

        def run():
            return (m.evaluate(wb.addr("B1"), iterations=it, tolerance=tol), m.evaluate(wb.addr("C1"), iterations=it, tolerance=tol))
    elif kind == "cse":
        with wb.notrace():
            m = ExcelCompiler(excel=wb.SubstWrapper(wb.make_workbook("cse"), {}))
        m.excel.subst[wb.addr("A1")] = v

        def run():
            return (m.evaluate(wb.addr("B1:B2")), m.evaluate(wb.addr("C1")), m.evaluate(wb.addr("C2")))
    else:
        with wb.notrace():
            m = ExcelCompiler(excel=wb.SubstWrapper(wb.make_workbook("diamond"), {}))
        m.excel.subst[wb.addr("A1")] = v

        def run():
            return (m.evaluate(wb.addr("C1")), m.evaluate(wb.addr("D1")))
    return m, run


def _run_on(identity, run):
    """run a workload under another thread identity: inline (model) when tracing, on a real thread otherwise"""
    if wb.is_tracing():
        prev = CUR[0]
        CUR[0] = identity
        try:
            return run()
        finally:
            CUR[0] = prev
    box = {}

    def target():
        try:
            box["r"] = run()
        except BaseException as e:  # noqa
            box["e"] = e
    t = threading.Thread(target=target)
    t.start()
    t.join()
    if "e" in box:
        raise box["e"]
    return box["r"]


def ob_interleave(ka, kb, j: int, va: int, vb: int, ita: int, itb: int, ta: bool, tb: bool) -> Optional[bool]:
    """A interrupted at its j-th cell evaluation by the whole of B: both get exactly their solo results"""
    if ka == kb == "iter":
        if vb != 2 or itb != 2:
            return None         # two iterative workloads: B's input and pass count are fixed (its tolerance stays symbolic)
    if not (1 <= j <= 4 and -3 <= va <= 3 and -3 <= vb <= 3 and 1 <= ita <= (3 if ka == kb == "iter" else 2) and 1 <= itb <= 2):
        return None
    with sequentialised():
        # solo runs (fresh models)
        _, run_a = _workload(ka, va, ita, ta)
        solo_a = run_a()
        _, run_b = _workload(kb, vb, itb, tb)
        solo_b = _run_on("B0", run_b)
        # interleaved run
        ma, run_a2 = _workload(ka, va, ita, ta)
        _, run_b2 = _workload(kb, vb, itb, tb)
        count, got_b = [0], []
        inner = ma._evaluate

        def counted(address):
            count[0] += 1
            if count[0] == j:
                got_b.append(_run_on("B", run_b2))
            return inner(address)
        ma._evaluate = counted
        got_a = run_a2()
        if not got_b:
            got_b.append(_run_on("B", run_b2))      # A finished before its j-th evaluation: B simply runs afterwards
    if not _eq(tuple(got_a), tuple(solo_a)):
        return False
    return _eq(tuple(got_b[0]), tuple(solo_b))


# ------------------------------------------------------------------ real-thread overlap (non-nested) schedules
from vf import vfplugin  # noqa: E402

wb.TEMPLATES.setdefault("g_cse", {"A1": 1, "A2": 2, "B1": ("cse", "B1:B3", "=VGATE(A1:A2)*2"), "C1": "=SUM(B1:B2)", "D1": ("cse", "D1:E2", "=VGATE(A1)+A2")})
wb.TEMPLATES.setdefault("g_plain", {"A1": 1, "A2": 2, "B1": "=VGATE(A1)+A2", "C1": "=B1*2"})
wb.TEMPLATES.setdefault("g_iter", {"A1": 8, "B1": "=A1+VGATE(B2)/2", "B2": "=B1/2", "C1": "=B1+1"})
G_CELLS = {"g_cse": ("D1:E2", "B1:B3", "C1"), "g_plain": ("B1", "C1"), "g_iter": ("B1", "C1")}


def _gmodel(t, sub=None):
    with wb.notrace():
        m = ExcelCompiler(excel=wb.SubstWrapper(wb.make_workbook(t), {}), plugins=("vf.vfplugin",),
                          cycles=True if t == "g_iter" else None)
    if sub:
        m.excel.subst.update(sub)
    return m


def _grun(m, t, it=None, tol=None):
    if t == "g_iter":
        return tuple(m.evaluate(wb.addr(c), iterations=it, tolerance=tol) for c in G_CELLS[t])
    return tuple(m.evaluate(wb.addr(c)) for c in G_CELLS[t])


def ob_overlap(ta, tb, va: int, ita: int, tola: bool) -> Optional[bool]:
    """a genuinely overlapping (non-nested) schedule on two real threads: A (symbolic, this thread) enters a formula,
    B (concrete, helper thread) enters one of its formulas and is held there, A runs to completion, then B is released.
    Both must obtain exactly their solo results."""
    if not (-9 <= va <= 9 and 1 <= ita <= 3):
        return None
    ta_tol, tb_tol = (0.5 if tola else 0.01), 5
    vfplugin.gate_reset(None)
    solo_a = _grun(_gmodel(ta, {wb.addr("A1"): va}), ta, ita, ta_tol)
    with wb.notrace():
        vfplugin.gate_reset(None)
        solo_b = _grun(_gmodel(tb), tb, 2, tb_tol)
    ma, mb = _gmodel(ta, {wb.addr("A1"): va}), _gmodel(tb)
    box = {}

    def b_work():
        try:
            box["r"] = _grun(mb, tb, 2, tb_tol)
        except BaseException as e:  # noqa
            box["e"] = repr(e)

    def start_b():
        with wb.notrace():
            th = threading.Thread(target=b_work, name="vf-B")
            box["t"] = th
            th.start()
            if not vfplugin.GATE["entered"].wait(30):
                box["e"] = "B never entered its formula"
    vfplugin.gate_reset(start_b)
    try:
        got_a = _grun(ma, ta, ita, ta_tol)
    finally:
        with wb.notrace():
            vfplugin.GATE["release"].set()
            if "t" in box:
                box["t"].join(30)
    if "e" in box or "r" not in box:
        return False
    return _eq(tuple(got_a), tuple(solo_a)) and _eq(tuple(box["r"]), tuple(solo_b))


def ob_fresh_thread(op, v: int) -> Optional[bool]:
    """a public operation on a thread identity that has never used the library works (no exception)"""
    if not -9 <= v <= 9:
        return None
    with sequentialised():
        with wb.notrace():
            m = ExcelCompiler(excel=wb.SubstWrapper(wb.make_workbook("cyc2"), {}), cycles=True)
            m.evaluate(wb.addr("C1"))
            m.evaluate(wb.addr("C1"))

        def work():
            if op == "set_value":
                m.set_value(wb.addr("A1"), v)
                return m.evaluate(wb.addr("B1"))
            if op == "evaluate":
                return m.evaluate(wb.addr("C1"))
            if op == "load":
                m2 = wb.build_from_file("cyc2", "yml", cycles=C06_CYC)
                m2.set_value(wb.addr("A1"), v)
                return m2.evaluate(wb.addr("B1"))
            m.trim_graph([wb.addr("A1")], [wb.addr("C1")])
            m.set_value(wb.addr("A1"), v)
            return m.evaluate(wb.addr("C1"))
        r = _run_on("FRESH", work)
    return r is not None


C06_CYC = {"iterations": 10, "tolerance": 0.001}


def prepare(tier, workdir):
    import os
    os.environ["VF_FILES_DIR"] = workdir
    wb.prepare_files(workdir, ["cyc2"], kinds=("yml",), cycles=C06_CYC)
    return {"persisted_models_written": 1}


def obligations(tier):
    obs = []
    kinds = ("iter", "cse", "plain")
    for ka in kinds:
        for kb in kinds:
            if ka == kb == "plain":
                continue
            obs.append(Obligation(PROP, f"interleave[{ka}|{kb}]", __name__, "ob_interleave", (ka, kb),
                                  timeout=400 if tier == "quick" else 2400, float_mode="real", group="interleave"))
    for ta in ("g_cse", "g_plain", "g_iter"):
        for tb in ("g_cse", "g_plain", "g_iter"):
            obs.append(Obligation(PROP, f"overlap[{ta[2:]}|{tb[2:]}]", __name__, "ob_overlap", (ta, tb),
                                  timeout=300 if tier == "quick" else 1200, float_mode="real", group="overlap"))
    for op in ("set_value", "evaluate", "load", "trim_graph"):
        obs.append(Obligation(PROP, f"fresh_thread[{op}]", __name__, "ob_fresh_thread", (op,), timeout=200, float_mode="real",
                              group="fresh"))
    return obs
