"""C20 Text functions: slicing partitions, search is first-match, TEXT() number formats.

Engine X on the apply_meta-wrapped left/mid/right/replace/find/substitute/concatenate/concat/
trim/upper/lower/exact/len_ (the callables a compiled formula uses) with symbolic ASCII text.
TEXT(k/10^j, fmt): the real text()/TextFormat.format_value/_number_converter/_number_token_converter for
a concrete list of formats from the 0 # , . % grammar against an integer-arithmetic reference renderer.
"""
from typing import Optional, Union

from pycel.excelutil import VALUE_ERROR, build_operator_operand_fixup
from pycel.lib import text as T
from pycel.lib.function_helpers import apply_meta

from vf.dom import V, in_dom, is_ascii, same
from vf.obl import Obligation

PROP = "C20"
LEVEL = "model_checking"
ENCODES = ["pycel.lib.text:left", "pycel.lib.text:mid", "pycel.lib.text:right", "pycel.lib.text:replace",
           "pycel.lib.text:find", "pycel.lib.text:substitute", "pycel.lib.text:concatenate", "pycel.lib.text:concat",
           "pycel.lib.text:trim", "pycel.lib.text:upper", "pycel.lib.text:lower", "pycel.lib.text:exact",
           "pycel.lib.text:len_", "pycel.lib.function_helpers:strs_wrapper", "pycel.lib.function_helpers:nums_wrapper",
           "pycel.excelutil:coerce_to_string", "pycel.excelutil:coerce_to_number",
           "pycel.lib.text:text", "pycel.lib.text:TextFormat.format_value", "pycel.lib.text:TextFormat._number_converter",
           "pycel.lib.text:TextFormat._number_token_converter", "pycel.lib.date_time:DateTimeFormatter.new"]
BOUNDS = ["text ASCII, len<=4 (quick) / <=5..6 (thorough) for the subject (REPLACE, SUBSTITUTE-nth one less), len<=2 for search/replacement text",
          "positions and counts -1..6; numbers as first argument: ints |v|<=99 and integral floats",
          "TRIM: text over the alphabet {' ', 'a'} enumerated by the solver up to length 4 (regex on symbolic text realises)",
          "TEXT(x, fmt): x = k/10^j with |k| <= 9999 (five-digit k times the solver out), j in 0..3; fmt from the 18 concrete formats TEXT_FORMATS "
          "(left side '#'s then '0's with optional thousands separator, right side '0's then '#'s, trailing %); one section only; "
          "date/time, '?', literals, multi-section and text formats are outside the claim; the format string is tokenised concretely",
          "TEXT: x is an exact real (k/10^j exactly), so repr(x) is that decimal; binary64 artefacts of x itself are outside the claim"]
ASSUMPTIONS = ["floats as exact reals",
               "TEXT: DateTimeFormatter.new runs as is but builds a formatter whose civil date fields are not computed (number formats never read them; a date token would fail loudly)"]


def _w(f):
    return apply_meta(f, name_space={})[0]


LEFT, MID, RIGHT, REPLACE, FIND, SUBSTITUTE = _w(T.left), _w(T.mid), _w(T.right), _w(T.replace), _w(T.find), _w(T.substitute)
CONCATENATE, CONCAT, TRIM, UPPER, LOWER, EXACT, LEN = (_w(T.concatenate), _w(T.concat), _w(T.trim), _w(T.upper),
                                                      _w(T.lower), _w(T.exact), _w(T.len_))
FIXUP = build_operator_operand_fixup(lambda *a: None)


def _txt(s, n):
    return len(s) <= n and is_ascii(s) and s[:1] != "#"


def ob_left_mid(L, s: str, n: int) -> Optional[bool]:
    """LEFT(s,n) & MID(s,n+1,LEN(s)) = s for 0 <= n; LEFT keeps the first min(n, len) characters; n<0 -> #VALUE!"""
    if not (_txt(s, L) and -1 <= n <= L + 2):
        return None
    left = LEFT(s, n)
    if n < 0:
        return same(left, VALUE_ERROR)
    if len(left) != (n if n < len(s) else len(s)):
        return False
    return same(left + MID(s, n + 1, LEN(s)), s) and same(LEN(s), len(s))


def ob_mid(L, s: str, p: int, k: int) -> Optional[bool]:
    """MID(s,p,k) is the k characters from position p (clipped at the end); p<1 or k<0 -> #VALUE!"""
    if not (_txt(s, L) and -1 <= p <= L + 2 and -1 <= k <= L + 2):
        return None
    r = MID(s, p, k)
    if p < 1 or k < 0:
        return same(r, VALUE_ERROR)
    exp = ""
    for i in range(len(s)):
        if p - 1 <= i < p - 1 + k:
            exp = exp + s[i]
    return same(r, exp)


def ob_right(L, s: str, k: int) -> Optional[bool]:
    """RIGHT(s,k) is the last k characters (all of s if k >= len); k<0 -> #VALUE!"""
    if not (_txt(s, L) and -1 <= k <= L + 2):
        return None
    r = RIGHT(s, k)
    if k < 0:
        return same(r, VALUE_ERROR)
    exp = ""
    for i in range(len(s)):
        if i >= len(s) - k:
            exp = exp + s[i]
    return same(r, exp)


def ob_replace(L, s: str, n: int, k: int, t: str) -> Optional[bool]:
    """REPLACE(s,n,k,t) = LEFT(s,n-1) & t & MID(s,n+k,LEN(s)); n<1 or k<0 -> #VALUE!"""
    if not (_txt(s, L) and _txt(t, 2) and -1 <= n <= L + 2 and -1 <= k <= L + 2):
        return None
    r = REPLACE(s, n, k, t)
    if n < 1 or k < 0:
        return same(r, VALUE_ERROR)
    return same(r, LEFT(s, n - 1) + t + MID(s, n + k, LEN(s) + 1))


def ob_find(L, f: str, s: str) -> Optional[bool]:
    """FIND(f,s) is the first position p with MID(s,p,LEN(f)) = f, or #VALUE! when there is none"""
    if not (_txt(s, L) and _txt(f, 2)):
        return None
    r = FIND(f, s)
    first = None
    for p in range(1, len(s) + 2):
        if first is None and p - 1 + len(f) <= len(s) and s[p - 1:p - 1 + len(f)] == f:
            first = p
    if first is None:
        return same(r, VALUE_ERROR)
    return same(r, first) and same(MID(s, r, len(f)), f)


def ob_find_start(L, f: str, s: str, st: int) -> Optional[bool]:
    """FIND(f,s,start) only considers positions >= start"""
    if not (_txt(s, L) and _txt(f, 1) and len(f) == 1 and 1 <= st <= L + 1):
        return None
    r = FIND(f, s, st)
    first = None
    for p in range(1, len(s) + 1):
        if first is None and p >= st and s[p - 1] == f:
            first = p
    return same(r, VALUE_ERROR if first is None else first)


def _ref_subst(s, old, new, inst):
    """replace all (inst None) or exactly the inst-th non-overlapping occurrence, scanning left to right"""
    out, i, seen = "", 0, 0
    while i < len(s):
        if len(old) > 0 and s[i:i + len(old)] == old:
            seen += 1
            if inst is None or seen == inst:
                out = out + new
            else:
                out = out + old
            i += len(old)
        else:
            out = out + s[i]
            i += 1
    return out


def ob_substitute_all(L, s: str, old: str, new: str) -> Optional[bool]:
    """SUBSTITUTE(s,old,new) replaces every (non-overlapping, left to right) occurrence"""
    if not (_txt(s, L) and _txt(old, 2) and _txt(new, 1) and len(old) >= 1):
        return None
    return same(SUBSTITUTE(s, old, new), _ref_subst(s, old, new, None))


def ob_substitute_nth(L, s: str, old: str, new: str, i: int) -> Optional[bool]:
    """SUBSTITUTE(s,old,new,i) replaces exactly the i-th occurrence (none if there are fewer); i<=0 -> #VALUE!"""
    if not (_txt(s, L) and _txt(old, 2) and _txt(new, 1) and len(old) >= 1 and -1 <= i <= L + 1):
        return None
    r = SUBSTITUTE(s, old, new, i)
    if i <= 0:
        return same(r, VALUE_ERROR)
    return same(r, _ref_subst(s, old, new, i))


def _render(v):
    if v is None:
        return ""
    if isinstance(v, bool):
        return "TRUE" if v else "FALSE"
    if isinstance(v, int):
        return str(v)
    return v


def ob_concat(a: V, b: V) -> Optional[bool]:
    """CONCATENATE(a,b) = CONCAT(a,b) = a & b = the Excel renderings joined"""
    if not (in_dom(a) and in_dom(b)):
        return None
    if (isinstance(a, str) and a[:1] == "#") or (isinstance(b, str) and b[:1] == "#"):
        return None
    exp = _render(a) + _render(b)
    return same(CONCATENATE(a, b), exp) and same(CONCAT(a, b), exp) and same(FIXUP(a, "BitAnd", b), exp) and \
        same(CONCAT(((a, b),)), exp)


def ob_case(L, s: str) -> Optional[bool]:
    """UPPER/LOWER idempotent, LEN preserved, EXACT is case-sensitive equality"""
    if not _txt(s, L):
        return None
    u, lo = UPPER(s), LOWER(s)
    if not (same(UPPER(u), u) and same(LOWER(lo), lo) and len(u) == len(s) and same(LOWER(u), lo)):
        return False
    return EXACT(s, s) is True and (EXACT(u, lo) is (u == lo))


def ob_exact(a: str, b: str) -> Optional[bool]:
    if not (_txt(a, 2) and _txt(b, 2)):
        return None
    return EXACT(a, b) is (a == b)


def _spaces(n, b0, b1, b2, b3):
    bits = (b0, b1, b2, b3)[:n]
    s = ""
    for b in bits:
        s = s + (" " if b else "a")
    return s


def ob_trim(n, region, b0: bool = False, b1: bool = False, b2: bool = False, b3: bool = False) -> Optional[bool]:
    """TRIM leaves single inner spaces and none at the ends, and is idempotent (text over {' ', 'a'}).
    region=False: the text has no leading/trailing blank; region=True: it has (kept for regression detection)"""
    s = _spaces(n, b0, b1, b2, b3)
    edge = s[:1] == " " or s[-1:] == " "
    if edge != region:
        return None
    r = TRIM(s)
    words = [w for w in s.split(" ") if w]
    return same(r, " ".join(words)) and same(TRIM(r), r)


def ob_number_arg(k: int, n: int) -> Optional[bool]:
    """numbers are sliced as their Excel rendering: an integral float k.0 behaves like the text of the integer k"""
    if not (-99 <= k <= 99 and -1 <= n <= 4):
        return None
    txt = str(k)
    for fn in (LEFT, RIGHT):
        if not same(fn(float(k), n), fn(txt, n)) or not same(fn(k, n), fn(txt, n)):
            return False
    return same(MID(float(k), 1, n), MID(txt, 1, n)) and same(LEN(k), len(txt))


# ------------------------------------------------------------------ TEXT(x, fmt) for number formats
# formats from the grammar  [#|0|,]* [. [0]*[#]*] [%]   (left side: '#'s then '0's, optional thousands separator)
TEXT_FORMATS = ("0", "#", "00", "0.0", "0.00", "#.#", "#.##", "0.0#", "#.0", "0.", "#,##0", "#,##0.00", "#,###",
                "0%", "0.0%", "#,##0.0%", "000.0", "#0.#")
_TF = {}


class _NumberOnlyFormatter(T.DateTimeFormatter):
    """DateTimeFormatter.new() runs as is, but the civil date/time fields of the serial number (never read by a
    number format) are not computed: a date token would fail loudly on the missing attributes"""

    def __init__(self, serial_number, time=None):
        self.serial_number = serial_number
        self._cached_datetime = None


def _text(x, fmt):
    orig = T.DateTimeFormatter
    T.DateTimeFormatter = _NumberOnlyFormatter
    try:
        return T.text(x, fmt)
    finally:
        T.DateTimeFormatter = orig


def _plugin_flags():
    from vf import chplugin
    chplugin.FLAGS["decimal"] = chplugin.FLAGS["format"] = True


def _dec_str(n):
    """decimal digits of n >= 0"""
    out = chr(48 + n % 10)
    n = n // 10
    while n > 0:
        out = chr(48 + n % 10) + out
        n = n // 10
    return out


def _ref_text(k, j, fmt):
    """reference rendering of k/10^j: integer arithmetic, half away from zero"""
    neg, a = k < 0, abs(k)
    p = fmt.count("%")
    body = fmt.replace("%", "")
    left, dot, right = body.partition(".")
    group = "," in left
    left = left.replace(",", "")
    d = len(right)
    num, den = a * 100 ** p * 10 ** d, 10 ** j
    n = (2 * num + den) // (2 * den)                # round half up of a non-negative rational
    ip, fp = n // 10 ** d, n % 10 ** d
    mind = len(left) - left.index("0") if "0" in left else 0
    digits = _dec_str(ip) if ip > 0 else ""
    if len(digits) < mind:
        digits = "0" * (mind - len(digits)) + digits
    if group and len(digits) > 3:
        digits = (digits[:-6] + "," if len(digits) > 6 else "") + digits[-6:-3] + "," + digits[-3:]
    out = ("-" if neg else "") + digits
    if dot:
        frac = _dec_str(10 ** d + fp)[1:] if d else ""
        keep = right.count("0")
        while len(frac) > keep and frac[-1:] == "0":
            frac = frac[:-1]
        out = out + "." + frac
    return out + "%" * p


def ob_text_number(fi, j, k: int) -> Optional[bool]:
    """TEXT(k/10^j, fmt) renders the half-away-from-zero decimal rounding with the digits, grouping and percent
    scaling the format asks for"""
    if not -9999 <= k <= 9999:
        return None
    fmt = TEXT_FORMATS[fi]
    _plugin_flags()
    x = k / 10 ** j if j else k
    return same(_text(x, fmt), _ref_text(k, j, fmt))


def obligations(tier):
    obs = []
    L = 4 if tier == "quick" else 5

    def add(oid, func, params=(), timeout=120, known=None, sig=None, group=""):
        obs.append(Obligation(PROP, oid, __name__, func, tuple(params), timeout=timeout, float_mode="real",
                              known=known, sig=sig, group=group))
    big = 1 if tier == "quick" else 6
    add(f"left_mid[L={L}]", "ob_left_mid", (L,), 150 * big, group="slice")
    add(f"mid[L={L}]", "ob_mid", (L,), 200 * big, group="slice")
    add(f"right[L={L}]", "ob_right", (L,), 150 * big, group="slice")
    add(f"replace[L={L - 1}]", "ob_replace", (L - 1,), 300 * big, group="slice")
    add(f"find[L={L}]", "ob_find", (L,), 200 * big, group="search")
    add(f"find_start[L={L}]", "ob_find_start", (L,), 200 * big, group="search")
    add(f"substitute_all[L={L}]", "ob_substitute_all", (L,), 300 * big, group="substitute")
    add(f"substitute_nth[L={L - 1}]", "ob_substitute_nth", (L - 1,), 300 * big, group="substitute")
    add("concat", "ob_concat", (), 200, group="concat")
    add(f"case[L={L}]", "ob_case", (L,), 150, group="case")
    add("exact", "ob_exact", (), 100, group="case")
    for n in (1, 2, 3, 4):
        s = ", ".join(f"b{i}: bool" for i in range(n))
        add(f"trim[n={n}]", "ob_trim", (n, False), 60, sig=s, group="trim")
        add(f"trim_edge[n={n}]", "ob_trim", (n, True), 60, sig=s, group="trim")
    add("number_arg", "ob_number_arg", (), 200, group="number")
    for fi, fmt in enumerate(TEXT_FORMATS):
        for j in (0, 1, 2, 3):
            if tier == "quick" and (fi + j) % 3:
                continue
            add(f"text_number[{fmt},j={j}]", "ob_text_number", (fi, j), 200, group="text_number")
    if tier == "thorough":
        add("left_mid[L=6]", "ob_left_mid", (6,), 1500, group="slice")
        add("right[L=6]", "ob_right", (6,), 1500, group="slice")
    return obs
