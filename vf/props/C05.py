"""C05 A cell has one value, however and in whatever order it is reached.

Engine X on the real lazy graph construction (_gen_graph/_process_gen_graph/_make_cells, eager range
evaluation) and _evaluate/_evaluate_range/_evaluate_non_iterative.  The workbook's constants are
symbolic (SubstWrapper), the order of first evaluation and the access path are enumerated.
"""
import itertools
from typing import Optional

from pycel.excelcompiler import ExcelCompiler

from vf import wb
from vf.obl import Obligation
from vf.props.C01 import _eq, value_of

PROP = "C05"
LEVEL = "model_checking"
ENCODES = ["pycel.excelcompiler:ExcelCompiler._gen_graph", "pycel.excelcompiler:ExcelCompiler._process_gen_graph",
           "pycel.excelcompiler:ExcelCompiler._make_cells", "pycel.excelcompiler:ExcelCompiler._evaluate_range",
           "pycel.excelcompiler:ExcelCompiler._evaluate", "pycel.excelcompiler:ExcelCompiler._evaluate_non_iterative",
           "pycel.excelwrapper:ExcelOpxWrapper.get_range", "pycel.excelwrapper:ExcelOpxWrapperNoData.get_range",
           "pycel.excelwrapper:ExcelOpxWrapper.max_col_row"]
BOUNDS = ["templates of C01 (quick: chain, sumrange, rangeform, nested, cse, twosheet, tables = this-row structured references in a table at the same position on two sheets)",
          "first-evaluation orders: all permutations of the formula cells (<= 4 cells: 24 orders; thorough) / identity, reverse, "
          "rotations and one interleaving (quick)",
          "access paths: cell, declared ranges containing it, unbounded column/row ranges clipped to the used area, list / tuple / "
          "generator of addresses, sheet-less address with the active sheet, repeated evaluate",
          "workbook constants symbolic: class {number, logical, blank} with int |v|<=99"]
ASSUMPTIONS = ["floats as exact reals"]

RANGES = {
    "chain": ("A1:A2", "B1:D1", "A1:D1"),
    "sumrange": ("A1:A3", "A1:D1", "B1:D1"),
    "rangeform": ("A1:A3", "A2:A3", "B1:C1"),
    "nested": ("A1:A2", "A1:A4", "B1:B2"),
    "cse": ("A1:A2", "B1:B2", "A1:C2"),
    "ifs": ("A1:A2", "B1:B2", "B1:C2"),
    "diamond": ("B1:B2", "A1:D1"),
    "name": ("A1:A2", "A1:C1"),
    "twosheet": ("A1:A2", "B1:C1"),
    "cseiferr": ("A1:A3", "E1:E3"),
    "tables": ("C2:C3", "A2:C2"),
    "unbounded": ("A1:A3", "B1:D1"),
}


def _model(tname, subst):
    with wb.notrace():
        return ExcelCompiler(excel=wb.SubstWrapper(wb.make_workbook(tname), subst))


NSYM = {"cseiferr": 1, "cse": 2, "tables": 2}


def _subst(tname, ks, vs, kmax=2):
    inputs = wb.inputs_of(tname)[:NSYM.get(tname, 4)]
    sub = {}
    for i, c in enumerate(inputs):
        if not (0 <= ks[i] <= kmax and -99 <= vs[i] <= 99):
            return None
        sub[wb.addr(c)] = value_of(ks[i], vs[i])
    return sub


def ob_order(tname, order, k0: int = 0, v0: int = 0, k1: int = 0, v1: int = 0, k2: int = 0, v2: int = 0,
             k3: int = 0, v3: int = 0) -> Optional[bool]:
    """whatever the order in which cells are first evaluated (and thereby compiled into the model), every cell gets
    the value of the full recompute; a second evaluate returns the same value"""
    sub = _subst(tname, (k0, k1, k2, k3), (v0, v1, v2, v3))
    if sub is None:
        return None
    m = _model(tname, sub)
    cells = wb.all_cells(tname)
    got = {}
    for idx in order:
        got[cells[idx]] = m.evaluate(cells[idx])
    exp = wb.oracle(tname, sub)
    for a in cells:
        v = m.evaluate(a)
        if not _eq(v, exp[a]):
            return False
        if a in got and not _eq(got[a], v):
            return False
    return True


def ob_access(tname, rng_first, k0: int = 0, v0: int = 0, k1: int = 0, v1: int = 0, k2: int = 0, v2: int = 0,
              k3: int = 0, v3: int = 0) -> Optional[bool]:
    """evaluate(cell) agrees with the matching element of every enclosing range, of the unbounded column/row range
    clipped to the used area, of a list / tuple / generator of addresses and of the sheet-less address"""
    sub = _subst(tname, (k0, k1, k2, k3), (v0, v1, v2, v3))
    if sub is None:
        return None
    m = _model(tname, sub)
    exp = wb.oracle(tname, sub)
    rngs = RANGES[tname]
    if not rng_first:       # cells first, ranges afterwards
        for a in wb.all_cells(tname):
            m.evaluate(a)
    for r in rngs:
        val = m.evaluate(wb.addr(r))
        from pycel.excelutil import AddressRange
        rows = AddressRange(wb.addr(r)).rows
        rows = [list(row) for row in rows]
        if len(rows) == 1:
            flat, vals = rows[0], val
        elif len(rows[0]) == 1:
            flat, vals = [row[0] for row in rows], val
        else:
            flat, vals = [c for row in rows for c in row], [x for row in val for x in row]
        if len(flat) != len(vals):
            return False
        for c, x in zip(flat, vals):
            e = exp.get(c.address)
            if c.address in exp and not _eq(x, e):
                return False
    a0, a1 = wb.all_cells(tname)[0], wb.all_cells(tname)[-1]
    lst = m.evaluate([a0, a1])
    tup = m.evaluate((a0, a1))
    gen = m.evaluate(a for a in (a0, a1))
    if not (isinstance(lst, list) and isinstance(tup, tuple) and isinstance(gen, tuple)):
        return False
    for seq in (lst, tup, gen):
        if not (_eq(seq[0], exp[a0]) and _eq(seq[1], exp[a1])):
            return False
    # sheet-less address resolves on the active sheet
    coord = a1.split("!")[1]
    if a1.startswith(wb.SHEET + "!") and not _eq(m.evaluate(coord), exp[a1]):
        return False
    # unbounded column A / row 1, clipped to the used area (of each sheet: the other sheet first or last)
    other = "__other__" in wb.TEMPLATES[tname]
    if other and rng_first:
        ocol = m.evaluate("Other!A:A")
    col = m.evaluate(wb.addr("A:A"))
    if other and not rng_first:
        ocol = m.evaluate("Other!A:A")
    if other:
        ocol = ocol if isinstance(ocol, tuple) else (ocol,)
        import re as _re2
        n_other = max(int(_re2.sub("[A-Z]", "", c)) for c in wb.TEMPLATES[tname]["__other__"])
        if len(ocol) != n_other:
            return False
        for i, x in enumerate(ocol):
            if not _eq(x, exp[f"Other!A{i + 1}"]):
                return False
    row = m.evaluate(wb.addr("1:1"))
    col = col if isinstance(col, tuple) else (col,)
    row = row if isinstance(row, tuple) else (row,)
    # A:A is clipped to the used area of the sheet: its height is the last used row of *any* column
    import re as _re
    n_col = max(int(_re.sub("[A-Z]", "", c)) for c in wb.inputs_of(tname) + wb.formulas_of(tname))
    if len(col) != n_col:
        return False
    for i, x in enumerate(col):
        a = wb.addr(f"A{i + 1}")
        if a in exp and not _eq(x, exp[a]):
            return False
    for i, x in enumerate(row):
        a = wb.addr(f"{'ABCDEFG'[i]}1")
        if a in exp and not _eq(x, exp[a]):
            return False
    return True


QUICK = ("chain", "sumrange", "rangeform", "nested", "cse", "cseiferr", "twosheet", "tables")


def _orders(tname, tier):
    cells = wb.all_cells(tname)
    forms = [cells.index(wb.addr(c)) for c in wb.formulas_of(tname)]
    other = [i for i, a in enumerate(cells) if a.startswith("Other!")]
    forms = forms + other
    if tier == "thorough" and len(forms) <= 4:
        return [tuple(p) for p in itertools.permutations(forms)]
    outs = [tuple(forms), tuple(reversed(forms))]
    for r in range(1, len(forms)):
        outs.append(tuple(forms[r:] + forms[:r]))
    if len(forms) >= 3:
        outs.append((forms[1], forms[0]) + tuple(forms[2:]))
        outs.append((forms[-1], forms[0]) + tuple(forms[1:-1]))
    seen, res = set(), []
    for o in outs:
        if o not in seen:
            seen.add(o)
            res.append(o)
    if tier == "thorough":
        import random
        rnd = random.Random(len(forms))
        if len(forms) <= 7:
            perms = list(itertools.permutations(forms))
            rnd.shuffle(perms)
            perms = perms[:24]
        else:           # too many to list: 24 seeded shuffles
            perms = []
            for _ in range(24):
                q = list(forms)
                rnd.shuffle(q)
                perms.append(tuple(q))
        for p in perms:
            if p not in seen:
                seen.add(p)
                res.append(p)
    return res


def obligations(tier):
    obs = []
    templates = QUICK if tier == "quick" else tuple(wb.TEMPLATES)
    for t in templates:
        n = min(len(wb.inputs_of(t)), NSYM.get(t, 4))
        sig = ", ".join(f"k{i}: int, v{i}: int" for i in range(n))
        cells = wb.all_cells(t)
        orders = _orders(t, tier)
        if tier == "quick":
            orders = orders[:4]
        for o in orders:
            name = ">".join(cells[i].replace("Sheet!", "") for i in o)
            obs.append(Obligation(PROP, f"order[{t}:{name}]", __name__, "ob_order", (t, o), timeout=300 if tier == "quick" else 1200,
                                  float_mode="real", sig=sig, group=t))
        for rf in (True, False):
            if tier == "quick" and not ((t in ("sumrange", "cse") and rf) or (t == "rangeform" and not rf) or t == "twosheet"):
                continue
            obs.append(Obligation(PROP, f"access[{t},{'ranges-first' if rf else 'cells-first'}]", __name__, "ob_access",
                                  (t, rf), timeout=300 if tier == "quick" else 1200, float_mode="real", sig=sig, group=t))
    return obs
