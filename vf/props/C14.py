"""C14 Aggregates over ranges follow Excel counting rules.

Engine X on the real _numerics / sum_ / average / count / max_ / min_ / sumproduct and on
SUBTOTAL compiled through ExcelFormula (FunctionNode.func_subtotal).  Rectangle shapes are
enumerated, cell values are symbolic; error codes are injected at solver-chosen positions.
"""
from typing import Optional, Union

from pycel.excelformula import ExcelFormula
from pycel.excellib import _numerics, sum_, sumproduct
from pycel.excelutil import DIV0, NA_ERROR, VALUE_ERROR
from pycel.lib.stats import average, count, max_, min_

from vf.dom import V, in_dom, pick_err, same
from vf.obl import Obligation

PROP = "C14"
LEVEL = "model_checking"
ENCODES = ["pycel.excellib:_numerics", "pycel.excellib:sum_", "pycel.excellib:sumproduct",
           "pycel.lib.stats:average", "pycel.lib.stats:count", "pycel.lib.stats:max_", "pycel.lib.stats:min_",
           "pycel.excelformula:FunctionNode.func_subtotal", "pycel.excelutil:flatten"]
BOUNDS = ["rectangles 1x1..1x3 (quick), + 2x2, 3x1, 1x4 (thorough); each cell a solver-chosen class {number, logical, blank, text, error code} with symbolic int value |v|<=99",
          "at most two injected error codes at solver-chosen positions",
          "permutation = one solver-chosen transposition; partition = one solver-chosen split point (row-major)",
          "SUMPRODUCT: two equally shaped ranges up to 2x2, integer/None/bool/text cells"]
ASSUMPTIONS = ["floats as exact reals (AVERAGE's quotient)"]

SHAPES_Q = ((1, 1), (1, 2), (2, 1), (1, 3))
SHAPES_T = SHAPES_Q + ((2, 2), (3, 1), (1, 4))
TEXTS = ("7", "x")

FUNCS = {"sum": sum_, "average": average, "max": max_, "min": min_, "count": count}


def _cell(k, v):
    """solver-chosen cell class: 0 number, 1 logical, 2 blank, 3 text (numeric-looking or not), 4 error code"""
    if k == 0:
        return v
    if k == 1:
        return v > 0
    if k == 2:
        return None
    if k == 3:
        return TEXTS[0] if v > 0 else TEXTS[1]
    return DIV0 if v > 0 else NA_ERROR      # two distinct error codes are enough for the first-error law


def _build(n, ks, vs):
    cells = []
    for i in range(n):
        k, v = ks[i], vs[i]
        if not (0 <= k <= 4 and -99 <= v <= 99):
            return None
        cells.append(_cell(k, v))
    return tuple(cells)


def _rect(cells, r, c):
    return tuple(tuple(cells[i * c + j] for j in range(c)) for i in range(r))


def _isnum(x):
    return isinstance(x, int) and not isinstance(x, bool)


def _iserr(x):
    return isinstance(x, str) and x[:1] == "#"


def _ref(cells):
    """(first error or None, sum, count, max, min) over exactly the numeric cells"""
    err, s, k, mx, mn = None, 0, 0, None, None
    for x in cells:
        if _iserr(x):
            if err is None:
                err = x
        elif _isnum(x):
            s += x
            k += 1
            if mx is None or x > mx:
                mx = x
            if mn is None or x < mn:
                mn = x
    return err, s, k, (0 if mx is None else mx), (0 if mn is None else mn)


def _expected(name, cells):
    err, s, k, mx, mn = _ref(cells)
    if name == "count":
        return k
    if err is not None:
        return err
    if name == "sum":
        return s
    if name == "max":
        return mx
    if name == "min":
        return mn
    return DIV0 if k == 0 else ("avg", s, k)


def _agrees(got, exp):
    if isinstance(exp, tuple):
        return not isinstance(got, (str, bool)) and got * exp[2] == exp[1]
    return same(got, exp)


def ob_aggregate(name, r, c, k0: int = 2, k1: int = 2, k2: int = 2, k3: int = 2, k4: int = 2, k5: int = 2,
                 v0: int = 0, v1: int = 0, v2: int = 0, v3: int = 0, v4: int = 0, v5: int = 0) -> Optional[bool]:
    """the aggregate uses exactly the numeric cells (text, logicals, blanks ignored), returns the first error
    (row-major) if one is present (COUNT: still the count), AVERAGE = SUM/COUNT or #DIV/0!, MIN/MAX of nothing = 0"""
    cells = _build(r * c, (k0, k1, k2, k3, k4, k5), (v0, v1, v2, v3, v4, v5))
    if cells is None:
        return None
    return _agrees(FUNCS[name](_rect(cells, r, c)), _expected(name, cells))


def ob_permute(name, r, c, i: int, j: int, k0: int = 2, k1: int = 2, k2: int = 2, k3: int = 2, k4: int = 2,
               k5: int = 2, v0: int = 0, v1: int = 0, v2: int = 0, v3: int = 0, v4: int = 0,
               v5: int = 0) -> Optional[bool]:
    """swapping two cells (no error cells), reshaping to one row / one column / separate arguments changes nothing"""
    n = r * c
    cells = _build(n, (k0, k1, k2, k3, k4, k5), (v0, v1, v2, v3, v4, v5))
    if cells is None or not (0 <= i < j < n):
        return None
    for x in cells:
        if _iserr(x):
            return None
    ci = cj = cells[0]
    for t in range(n):
        if t == i:
            ci = cells[t]
        if t == j:
            cj = cells[t]
    swapped = tuple(cj if t == i else (ci if t == j else cells[t]) for t in range(n))
    fn = FUNCS[name]
    base = fn(_rect(cells, r, c))
    for other in (fn(_rect(swapped, r, c)), fn((cells,)), fn(tuple((x,) for x in cells)), fn(*cells)):
        if not (same(base, other) or (isinstance(base, float) and base == other)):
            return False
    return True


def ob_additive(n, k: int, k0: int = 2, k1: int = 2, k2: int = 2, k3: int = 2, k4: int = 2, k5: int = 2,
                v0: int = 0, v1: int = 0, v2: int = 0, v3: int = 0, v4: int = 0, v5: int = 0) -> Optional[bool]:
    """SUM and COUNT are additive over a partition of the cells into a prefix and the rest (no error cells)"""
    cells = _build(n, (k0, k1, k2, k3, k4, k5), (v0, v1, v2, v3, v4, v5))
    if cells is None or not (0 <= k <= n):
        return None
    for x in cells:
        if _iserr(x):
            return None
    left = tuple(cells[t] for t in range(n) if t < k)
    right = tuple(cells[t] for t in range(n) if t >= k)
    return same(sum_((cells,)), sum_((left,)) + sum_((right,))) and \
        same(count((cells,)), count((left,)) + count((right,))) and \
        same(sum_((left,), (right,)), sum_((cells,)))


def ob_text_ignored(name, t: str, v: int) -> Optional[bool]:
    """any (ASCII, len<=2) text cell next to a number is ignored by the aggregate"""
    if not (in_dom(t) and in_dom(v)) or t[:1] == "#":
        return None
    return _agrees(FUNCS[name](((t, v),)), _expected(name, (v,)))


# ------------------------------------------------------------------ SUBTOTAL through the compiler
SUBTOTALS = ((1, "average"), (2, "count"), (4, "max"), (5, "min"), (9, "sum"), (101, "average"), (109, "sum"))
_CTX = {}


def _subtotal_eval(num, rect):
    """compile =SUBTOTAL(num, A1:B2) for real and evaluate it with _R_ returning `rect`"""
    holder = _CTX.setdefault("holder", {})
    holder["rect"] = rect
    key = num
    if key not in _CTX:
        ev = ExcelFormula.build_eval_context(lambda a: None, lambda a: holder["rect"])
        _CTX[key] = (ev, ExcelFormula(f"=SUBTOTAL({num}, A1:C1)"))
    ev, formula = _CTX[key]
    return ev(formula)


def ob_subtotal(si, k0: int, k1: int, k2: int, v0: int, v1: int, v2: int) -> Optional[bool]:
    """SUBTOTAL(n, range) equals the AVERAGE/COUNT/MAX/MIN/SUM it names (incl. 101..109, error cells)"""
    cells = _build(3, (k0, k1, k2), (v0, v1, v2))
    if cells is None:
        return None
    rect = _rect(cells, 1, 3)
    num, name = SUBTOTALS[si]
    return _agrees(_subtotal_eval(num, rect), _expected(name, cells))


def _subtotal_multi_eval(num, first, second, third):
    """=SUBTOTAL(num, A1:B1, D1:E1, F1): every reference after the function number must reach the aggregate"""
    holder = _CTX.setdefault("mholder", {})
    holder["A1:B1"], holder["D1:E1"], holder["F1"] = first, second, third
    key = ("multi", num)
    if key not in _CTX:
        ev = ExcelFormula.build_eval_context(lambda a: holder[str(a).split("!")[-1]],
                                             lambda a: holder[str(a).split("!")[-1]])
        _CTX[key] = (ev, ExcelFormula(f"=SUBTOTAL({num}, A1:B1, D1:E1, F1)"))
    ev, formula = _CTX[key]
    return ev(formula)


def ob_subtotal_multi(si, k0: int, k1: int, k2: int, k3: int, v0: int, v1: int, v2: int, v3: int) -> Optional[bool]:
    """SUBTOTAL(n, ref1, ref2, ref3) aggregates the cells of all its references, like the function it names"""
    cells = _build(4, (k0, k1, k2, k3), (v0, v1, v2, v3))
    if cells is None:
        return None
    num, name = SUBTOTALS[si]
    got = _subtotal_multi_eval(num, (cells[:2],), ((cells[2], None),), cells[3])
    return _agrees(got, _expected(name, cells))


# ------------------------------------------------------------------ SUMPRODUCT
SPV = Union[int, bool, None, str]


def _z(x):
    return x if _isnum(x) else 0


def ob_sumproduct(r, c, k0: int = 2, k1: int = 2, k2: int = 2, k3: int = 2, k4: int = 2, k5: int = 2,
                  v0: int = 0, v1: int = 0, v2: int = 0, v3: int = 0, v4: int = 0, v5: int = 0) -> Optional[bool]:
    """SUMPRODUCT of two equally shaped ranges = sum of pointwise products, non-numbers count as 0"""
    n = r * c
    cells = _build(2 * n, (k0, k1, k2, k3, k4, k5), (v0, v1, v2, v3, v4, v5))
    if cells is None:
        return None
    for x in cells:
        if _iserr(x) or (_isnum(x) and not -9 <= x <= 9):
            return None
    a, b = cells[:n], cells[n:]
    exp = 0
    for t in range(n):
        exp += _z(a[t]) * _z(b[t])
    got = sumproduct(_rect(a, r, c), _rect(b, r, c))
    return not isinstance(got, (str, bool)) and got == exp


def ob_sumproduct_shape(a0: int, a1: int, b0: int) -> Optional[bool]:
    """differently shaped ranges give #VALUE!; an error cell is returned"""
    if not (in_dom(a0) and in_dom(a1) and in_dom(b0)):
        return None
    return same(sumproduct(((a0, a1),), ((b0,),)), VALUE_ERROR) and \
        same(sumproduct(((a0, DIV0),), ((b0, a1),)), DIV0)


def obligations(tier):
    obs = []

    def sig(n, pre=""):
        return ", ".join(([pre] if pre else []) + [f"k{i}: int" for i in range(n)] + [f"v{i}: int" for i in range(n)])

    def add(oid, func, params, s=None, timeout=120, group=""):
        obs.append(Obligation(PROP, oid, __name__, func, tuple(params), timeout=timeout, float_mode="real",
                              sig=s, group=group))
    shapes = SHAPES_Q if tier == "quick" else SHAPES_T
    for r, c in shapes:
        n = r * c
        for name in FUNCS:
            heavy = name in ("max", "min")
            if n > 4 and heavy and tier == "quick":
                continue
            to = 120 if n <= 3 else 1800
            add(f"aggregate[{name},{r}x{c}]", "ob_aggregate", (name, r, c), sig(n), to, "aggregate")
            if (r, c) == (1, 2) or (tier == "thorough" and (r, c) == (1, 3)):
                add(f"permute[{name},{r}x{c}]", "ob_permute", (name, r, c), sig(n, "i: int, j: int"), to * 2, "permute")
    for n in ((2,) if tier == "quick" else (2, 3, 4)):
        add(f"additive[n={n}]", "ob_additive", (n,), sig(n, "k: int"), 120 if n <= 3 else 900, "additive")
    for name in FUNCS:
        add(f"text_ignored[{name}]", "ob_text_ignored", (name,), None, 60, "aggregate")
    for si in range(len(SUBTOTALS)):
        add(f"subtotal[{SUBTOTALS[si][0]}]", "ob_subtotal", (si,), None, 400, "subtotal")
    for si in ((1, 4) if tier == "quick" else range(len(SUBTOTALS))):
        add(f"subtotal_multi[{SUBTOTALS[si][0]}]", "ob_subtotal_multi", (si,), None, 900, "subtotal")
    for r, c in ((1, 1),) + (((1, 2), (2, 1)) if tier == "thorough" else ()):
        add(f"sumproduct[{r}x{c}]", "ob_sumproduct", (r, c), sig(2 * r * c), 200 if r * c < 2 else 900, "sumproduct")
    add("sumproduct_shape", "ob_sumproduct_shape", (), None, 60, "sumproduct")
    return obs
