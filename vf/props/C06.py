"""C06 Iterative calculation: bounded, tolerance-honest, agrees with plain evaluation.

Engine X on the real _evaluate_iterative / _IterativeEvalTracker / _CycleCell / set_value with cycles
enabled.  (a) acyclic templates: histories as in C01 against the full recompute; (b)-(d) linear
circular systems x = Ax + b with a symbolic b, iteration count and tolerance: pass bound, tolerance
honesty and the contraction error bound.
"""
from typing import Optional

from pycel.excelcompiler import ExcelCompiler

from vf import wb
from vf.obl import Obligation
from vf.props.C01 import _eq, value_of, skeletons

PROP = "C06"
LEVEL = "model_checking"
ENCODES = ["pycel.excelcompiler:ExcelCompiler._evaluate_iterative", "pycel.excelutil:_IterativeEvalTracker",
           "pycel.excelcompiler:_CycleCell", "pycel.excelcompiler:ExcelCompiler.set_value",
           "pycel.excelcompiler:ExcelCompiler._evaluate", "pycel.excelcompiler:ExcelCompiler._evaluate_range",
           "pycel.excelcompiler:_CellBase.close_enough", "pycel.excelcompiler:ExcelCompiler.eval"]
BOUNDS = ["acyclic: templates chain, sumrange, rangeform, nested, cse with cycles enabled; configurations no-data and stored results; "
          "histories of 1..2 writes (cells loaded first or inputs only), values {number, logical, blank}, ints |v|<=99",
          "circular: 2-cell cycle (||A||inf = 1/2) and 3-cell cycle through a SUM range (||A||inf = 1/2); b symbolic int |b|<=99, "
          "iterations symbolic 1..5 (1..7 and tolerance down to 1e-9 for the fast contraction, where a relative closeness test would stand in for the tolerance; 1..2 in the variant with a set_value of b followed by a second evaluate), tolerance symbolic real 0.01..50",
          "floats as exact reals: the rounding error of binary64 against the tolerance is not part of the claim"]
ASSUMPTIONS = ["floats as exact reals"]

wb.TEMPLATES.setdefault("cyc2", {"A1": 8, "B1": "=A1+B2/2", "B2": "=B1/2", "C1": "=B1+1"})
wb.TEMPLATES.setdefault("cyc3r", {"A1": 8, "B1": "=A1+SUM(B2:B3)/4", "B2": "=B1/2", "B3": "=B1/4", "C1": "=B2+B3"})
wb.TEMPLATES.setdefault("cyc4", {"A1": 8, "B1": "=A1+B2/4", "B2": "=B1", "C1": "=B1*2"})

wb.TEMPLATES.setdefault("cycfast", {"A1": 8, "B1": "=A1+B2/1000", "B2": "=B1/2", "C1": "=B1+1"})

# template -> (cycle cells, q = max row sum of |A|, fixed point of B1 as numerator/denominator of b)
CYCLES = {
    "cyc2": (("B1", "B2"), (1, 2), (4, 3)),        # x1 = b + x2/2, x2 = x1/2  -> x1 = 4b/3
    "cyc3r": (("B1", "B2", "B3"), (1, 2), (16, 13)),  # x1 = b + (x2+x3)/4, x2 = x1/2, x3 = x1/4 -> x1 = 16b/13 ; ||A||inf = 1/2
    "cycfast": (("B1", "B2"), (1, 2), (2000, 1999)),  # x1 = b + x2/1000, x2 = x1/2 -> x1 = 2000b/1999 ; ||A||inf = 1/2
    "cyc4": (("B1", "B2"), (1, 4), (4, 3)),        # x1 = b + x2/4, x2 = x1 -> x1 = 4b/3 ; row sum max(1/4, 1) -> handled below
}


def ob_acyclic(tname, config, skel, k0: int = 0, v0: int = 0, k1: int = 0, v1: int = 0) -> Optional[bool]:
    """with cycles enabled an acyclic workbook evaluates, on first use and after the history, to the full recompute"""
    ks, vs = (k0, k1), (v0, v1)
    n = sum(1 for op, _ in skel if op == "s")
    vals = []
    for i in range(n):
        if not (0 <= ks[i] <= 2 and -99 <= vs[i] <= 99):
            return None
        vals.append(value_of(ks[i], vs[i]))
    m = wb.build(tname, config, cycles={"iterations": 10, "tolerance": 0.001})
    inputs, cells = wb.inputs_of(tname), wb.all_cells(tname)
    current, si = {}, 0
    for op, idx in skel:
        if op == "s":
            a = wb.addr(inputs[idx])
            m.set_value(a, vals[si])
            current[a] = vals[si]
            si += 1
        else:
            got = m.evaluate(cells[idx])
            if not _eq(got, wb.oracle(tname, current)[cells[idx]]):
                return False          # first use must already be right
    exp = wb.oracle(tname, current)
    for a in cells:
        if not _eq(m.evaluate(a), exp[a]):
            return False
    return True


def _absdiff(a, b):
    a = 0 if a is None else a
    b = 0 if b is None else b
    return a - b if a >= b else b - a


def ob_cycle(tname, set_again, b: int, it: int, tol: float, b2: int, tol_lo=0.01, it_max=5) -> Optional[bool]:
    """passes <= iterations; stopping early means no cycle cell moved by more than the tolerance in the last pass, and
    then B1 is within q/(1-q) * tolerance of the fixed point of the (contracting, linear) system"""
    if not (-99 <= b <= 99 and -99 <= b2 <= 99 and 1 <= it <= (2 if set_again else it_max) and tol_lo <= tol <= 50):
        return None
    cyc_cells, (qn, qd), (fn, fd) = CYCLES[tname]
    with wb.notrace():
        m = ExcelCompiler(excel=wb.SubstWrapper(wb.make_workbook(tname), {}),
                          cycles={"iterations": 100, "tolerance": 0.001})
    m.excel.subst[wb.addr("A1")] = b
    passes, snaps = [0], []
    inner = m._evaluate_non_iterative

    def counted(address):
        r = inner(address)
        passes[0] += 1
        snaps.append(tuple(m.cell_map[wb.addr(c)].value if wb.addr(c) in m.cell_map else None for c in cyc_cells))
        return r
    m._evaluate_non_iterative = counted
    for rnd in range(2 if set_again else 1):
        if rnd == 1:
            m.set_value(wb.addr("A1"), b2)
            b = b2
        passes[0] = 0
        del snaps[:]
        snaps.append(tuple(m.cell_map[wb.addr(c)].value if wb.addr(c) in m.cell_map else None for c in cyc_cells))
        x1 = m.evaluate(wb.addr("B1"), iterations=it, tolerance=tol)
        if passes[0] > it or passes[0] < 1:
            return False
        if passes[0] < it:
            if len(snaps) < 2:
                return False
            last, prev = snaps[-1], snaps[-2]
            for u, w in zip(last, prev):
                if _absdiff(u, w) > tol * 1.0000101:
                    return False
            # contraction bound: |x - x*| <= q/(1-q) * (last step); q = qn/qd
            star_num = fn * b        # x* = fn*b/fd
            err = _absdiff(x1 * fd, star_num)          # fd * |x1 - x*|
            bound = tol * 1.0000101 * qn * fd / (qd - qn)
            if err > bound:
                return False
    return True


def ob_cycle_fast(b: int, it: int, tol: float) -> Optional[bool]:
    """fast contraction, large values against a tiny tolerance (relative closeness must not stand in for the tolerance)"""
    return ob_cycle("cycfast", False, b, it, tol, 0, tol_lo=0.000000001, it_max=7)


def ob_defaults(b: int, it1: int, tol1: float) -> Optional[bool]:
    """explicit iterations/tolerance of one evaluate call do not leak into a later default call: the default call runs
    at most the configured 4 passes and, if it stops earlier, no cycle cell moved by more than the configured 0.5"""
    if not (-99 <= b <= 99 and 1 <= it1 <= 2 and 1 <= tol1 <= 50):
        return None
    with wb.notrace():
        book = wb.make_workbook("cyc2")
        book.calculation.iterate = True
        book.calculation.iterateCount = 4
        book.calculation.iterateDelta = 0.5
        m = ExcelCompiler(excel=wb.SubstWrapper(book, {}), cycles=True)
    m.excel.subst[wb.addr("A1")] = b
    passes, snaps = [0], []
    inner = m._evaluate_non_iterative
    cells = ("B1", "B2")

    def counted(address):
        r = inner(address)
        passes[0] += 1
        snaps.append(tuple(m.cell_map[wb.addr(c)].value for c in cells))
        return r
    m._evaluate_non_iterative = counted
    m.evaluate(wb.addr("B1"), iterations=it1, tolerance=tol1)
    m.set_value(wb.addr("A1"), b + 40)
    passes[0] = 0
    del snaps[:]
    snaps.append(tuple(m.cell_map[wb.addr(c)].value for c in cells))
    m.evaluate(wb.addr("B1"))
    if passes[0] > 4:
        return False
    if passes[0] < 4:
        for u, w in zip(snaps[-1], snaps[-2]):
            if _absdiff(u, w) > 0.5 * 1.0000101:
                return False
    return True


def obligations(tier):
    obs = []
    for t in ("chain", "sumrange", "rangeform", "nested", "cse"):
        for cfg in ("nodata", "stored"):
            for nsets in (1, 2):
                if nsets == 2 and (tier == "quick" and t not in ("sumrange", "rangeform")):
                    continue
                for tag, seq, mid, sk in skeletons(t, nsets, "thorough"):
                    if nsets == 2 and (seq, mid is not None) not in (((0, 1), True), ((0, 0), True)):
                        continue
                    if tier == "quick" and nsets == 1 and seq[0] > 0 and t not in ("sumrange", "rangeform"):
                        continue
                    if t == "cse" and nsets == 2:
                        continue
                    sig = ", ".join(f"k{i}: int, v{i}: int" for i in range(nsets))
                    oid = f"acyclic[{t}/{cfg}/{tag}/set{''.join(map(str, seq))}{'' if mid is None else '+eval'}]"
                    obs.append(Obligation(PROP, oid, __name__, "ob_acyclic", (t, cfg, sk), timeout=300 if tier == "quick" else 1200,
                                          float_mode="real", sig=sig, group="acyclic"))
    obs.append(Obligation(PROP, "cycle_fast", __name__, "ob_cycle_fast", (), timeout=400 if tier == "quick" else 2400,
                          float_mode="real", group="cycle"))
    obs.append(Obligation(PROP, "defaults_not_leaked", __name__, "ob_defaults", (), timeout=400 if tier == "quick" else 2400,
                          float_mode="real", group="cycle"))
    for t in ("cyc2", "cyc3r", "cyc4"):
        for again in (False, True):
            if t == "cyc4" or (tier == "quick" and again and t == "cyc3r"):
                continue
            obs.append(Obligation(PROP, f"cycle[{t}{',set+again' if again else ''}]", __name__, "ob_cycle", (t, again),
                                  sig="b: int, it: int, tol: float, b2: int", timeout=400 if tier == "quick" else 2400, float_mode="real", group="cycle"))
    return obs
