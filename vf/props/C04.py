"""C04 Declared precedents cover every cell a formula actually reads.

Engine X on the real code generator + needed_addresses scanner + _process_gen_graph + the run-time read
paths _C_ / _R_ (ExcelCompiler._evaluate / _evaluate_range, wrapped on the instance before first use).
Reference forms are enumerated in two template workbooks; cell values and the numeric arguments that
select what is read (INDEX/CHOOSE/IF) are symbolic, so "Confirmed" covers every environment.
"""
from typing import Optional

import networkx as nx

from pycel.excelcompiler import ExcelCompiler, _CellRange
from pycel.excelutil import AddressRange

from vf import wb
from vf.obl import Obligation
from vf.props.C01 import value_of

PROP = "C04"
LEVEL = "model_checking"
ENCODES = ["pycel.excelformula:ExcelFormula.needed_addresses", "pycel.excelcompiler:_CellRange.needed_addresses",
           "pycel.excelcompiler:ExcelCompiler._process_gen_graph", "pycel.excelcompiler:ExcelCompiler._make_cells",
           "pycel.excelcompiler:ExcelCompiler._evaluate", "pycel.excelcompiler:ExcelCompiler._evaluate_range",
           "pycel.excelformula:ExcelFormula.build_eval_context", "pycel.lib.lookup:index"]
BOUNDS = ["reference forms: A1, $A$1, Sheet!A1, 'My Sheet'!A1, A1:B2, intersection A1:B2 B1:C2, union (A1,B2) in SUM, A:A / 1:1 on another sheet, "
          "defined name (single cell and range), ROW()/COLUMN(), INDEX(range,r,c), CHOOSE, IF, CSE array members, a range with a blank member",
          "symbolic: five cell values {number, logical, blank} with ints |v|<=99, and the selector cells (row, column, choice) 0..3",
          "computed references (OFFSET/INDIRECT) are outside the statement"]
ASSUMPTIONS = ["floats as exact reals"]

wb.TEMPLATES.setdefault("refs", {
    "A1": 1, "A2": 2, "B1": 3, "B2": 4, "C1": 5, "E1": 1, "E2": 2,
    "D1": "=A1+$A$2", "D2": "=Sheet!B1*2", "D3": "=SUM(A1:B2)", "D4": "=SUM(A1:B2 B1:C2)", "D5": "=SUM((A1,B2))",
    "D6": "=INDEX(A1:B2,E1,E2)", "D7": "=IF(E1>1,A1,B2)", "D8": "=CHOOSE(E2,A1,A2,B1)", "D9": "=ROW(A2)+COLUMN(B1)+A1",
    "D10": "=SUM(Other!A:A)+SUM(Other!1:1)", "D11": "='My Sheet'!A1+one", "D12": "=SUM(block)", "D13": "=SUM(B1:C2)",
    "F1": ("cse", "F1:F2", "=A1:A2+B1:B2"), "G1": "=F2+F1",
    "__names__": {"one": "Sheet!$A$1", "block": "Sheet!$A$1:$B$2"},
    "__other__": {"A1": 10, "A2": 20, "B1": 30},
    "__my__": {"A1": 7},
})
SYM = ("A1", "A2", "B1", "B2", "C1")
FORMS = ("D1", "D2", "D3", "D4", "D5", "D6", "D7", "D8", "D9", "D10", "D11", "D12", "D13", "F1", "F2", "G1")


def _book():
    book = wb.make_workbook("refs")
    ws = book.create_sheet("My Sheet")
    for c, v in wb.TEMPLATES["refs"]["__my__"].items():
        ws[c] = v
    return book


def _instrument(m, reads):
    """record (reader node, address read) for every run-time read through _C_ / _R_"""
    stack = []
    ev, evr = m._evaluate, m._evaluate_range

    def _evaluate(address):
        if stack:
            reads.append((stack[-1], str(address)))
        return ev(address)

    def _evaluate_range(address):
        if stack:
            reads.append((stack[-1], str(address)))
        rng = m.cell_map.get(str(address))
        if rng is not None and isinstance(rng, _CellRange) and rng.formula is None:
            stack.append(rng)          # a plain range reads its member cells
            try:
                return evr(address)
            finally:
                stack.pop()
        return evr(address)
    m._evaluate, m._evaluate_range = _evaluate, _evaluate_range
    inner = m.eval                      # builds the eval context with the wrapped readers

    def _eval(cell, cse_array_address=None):
        stack.append(cell)
        try:
            return inner(cell, cse_array_address)
        finally:
            stack.pop()
    m._eval = _eval


def _covered(m, reader, address):
    """the read address is a declared precedent of the reader (or inside a declared range) and the graph has the edge"""
    with wb.notrace():
        declared = [a for a in reader.needed_addresses]
        target = AddressRange(address)
        ok_decl = False
        for d in declared:
            if d.address == address:
                ok_decl = True
            elif d.is_range and not target.is_range and target in d:
                ok_decl = True
            elif d.is_range and target.is_range and d.is_unbounded_range:
                ok_decl = True          # unbounded range resolved to its bounded used area
            elif d.is_range and target.is_range and target.start in d and target.end in d:
                # a computed sub-range (intersection) of a declared range: every member cell must reach the reader
                for row in target.rows:
                    for c in row:
                        n = m.cell_map.get(c.address)
                        if n is None or n not in m.dep_graph or not nx.has_path(m.dep_graph, n, reader):
                            return False
                return True
        if not ok_decl:
            return False
        node = m.cell_map.get(address)
        if node is None or node not in m.dep_graph or reader not in m.dep_graph:
            return False
        return nx.has_path(m.dep_graph, node, reader)


def ob_reads(form, k0: int, v0: int, k1: int, v1: int, k2: int, v2: int, e1: int, e2: int) -> Optional[bool]:
    """every cell or range read while evaluating the formula cell (and, transitively, its precedents) is declared and
    connected in the dependency graph; the ancestors of the cell contain every cell read"""
    ks, vs = (k0, k1, k2), (v0, v1, v2)
    for i in range(3):
        if not (0 <= ks[i] <= 2 and -99 <= vs[i] <= 99):
            return None
    if not (0 <= e1 <= 3 and 0 <= e2 <= 3):
        return None
    sub = {wb.addr("A1"): value_of(ks[0], vs[0]), wb.addr("B1"): value_of(ks[1], vs[1]), wb.addr("B2"): value_of(ks[2], vs[2]),
           wb.addr("E1"): e1, wb.addr("E2"): e2}
    with wb.notrace():
        m = ExcelCompiler(excel=wb.SubstWrapper(_book(), {}))
    m.excel.subst.update(sub)
    reads = []
    _instrument(m, reads)
    target = wb.addr(form)
    m.evaluate(target)
    for reader, address in reads:
        if not _covered(m, reader, address):
            return False
    with wb.notrace():
        anc = {n.address.address for n in nx.ancestors(m.dep_graph, m.cell_map[target])}
        read_cells = {a for _, a in reads if ":" not in a}
    for a in read_cells:
        if a not in anc:
            return False
    return True


def ob_reads_after_set(form, k0: int, v0: int, e1: int, e2: int) -> Optional[bool]:
    """the same after a set_value of a cell that was blank when the graph was built (C2) and of a selector"""
    if not (0 <= k0 <= 2 and -99 <= v0 <= 99 and 0 <= e1 <= 3 and 0 <= e2 <= 3):
        return None
    with wb.notrace():
        m = ExcelCompiler(excel=wb.SubstWrapper(_book(), {}))
        m.evaluate(wb.addr(form))
        for c in ("C2", "E1", "E2"):
            m.evaluate(wb.addr(c))
    reads = []
    _instrument(m, reads)
    m.set_value(wb.addr("C2"), value_of(k0, v0))
    m.set_value(wb.addr("E1"), e1)
    m.set_value(wb.addr("E2"), e2)
    target = wb.addr(form)
    got = m.evaluate(target)
    for reader, address in reads:
        if not _covered(m, reader, address):
            return False
    # and the value is the one a fresh model computes (staleness would show a missing edge)
    with wb.notrace():
        fresh = ExcelCompiler(excel=wb.SubstWrapper(_book(), {}))
    fresh.excel.subst.update({wb.addr("C2"): value_of(k0, v0), wb.addr("E1"): e1, wb.addr("E2"): e2})
    exp = fresh.evaluate(target)
    return got == exp or (got is None and exp is None)


def obligations(tier):
    obs = []
    for f in FORMS:
        obs.append(Obligation(PROP, f"reads[{f}:{wb.TEMPLATES['refs'].get(f, 'cse member')}]", __name__, "ob_reads", (f,),
                              timeout=300 if tier == "quick" else 1200, float_mode="real", group="reads"))
    for f in ("D13", "D4", "D6", "D8", "D7"):
        obs.append(Obligation(PROP, f"reads_after_set[{f}]", __name__, "ob_reads_after_set", (f,),
                              timeout=300 if tier == "quick" else 1200, float_mode="real", group="reads"))
    return obs
