"""C16 Lookup functions agree with a linear-scan definition.

Engine X on the real _match / match / vlookup / hlookup / lookup / index (raw and
apply_meta-wrapped, i.e. what a compiled formula calls) with ExcelCmp underneath.
Vector shapes are enumerated, elements and the lookup value are symbolic.
"""
from typing import Optional, Union

from pycel.excelutil import NA_ERROR, REF_ERROR, VALUE_ERROR, ERROR_CODES
from pycel.lib import lookup as L
from pycel.lib.function_helpers import apply_meta

from vf.dom import in_dom, same, is_ascii
from vf.obl import Obligation

PROP = "C16"
LEVEL = "model_checking"
ENCODES = ["pycel.lib.lookup:_match", "pycel.lib.lookup:match", "pycel.lib.lookup:vlookup",
           "pycel.lib.lookup:hlookup", "pycel.lib.lookup:lookup", "pycel.lib.lookup:index",
           "pycel.excelutil:ExcelCmp", "pycel.excelutil:type_cmp_value",
           "pycel.lib.function_helpers:error_string_wrapper", "pycel.lib.function_helpers:nums_wrapper",
           "pycel.lib.function_helpers:cse_array_wrapper"]
BOUNDS = ["vectors of length 1..4 (quick) / 1..6 ints, 1..4 mixed (thorough); tables up to 3x3",
          "elements: int |v|<=99, ASCII text len<=1 without wildcard characters, bool, None (blank)",
          "lookup value never blank; wildcard lookup values only from a concrete pool",
          "sortedness preconditions written against an independent rank/key order, blanks only at the ends"]
ASSUMPTIONS = ["floats as exact reals where a float appears (pycel's blank-neutral 0.0)"]

W_MATCH = apply_meta(L.match, name_space={})[0]
W_VLOOKUP = apply_meta(L.vlookup, name_space={})[0]
W_HLOOKUP = apply_meta(L.hlookup, name_space={})[0]
W_LOOKUP = apply_meta(L.lookup, name_space={})[0]
W_INDEX = apply_meta(L.index, name_space={})[0]


def _rank(v):
    if isinstance(v, bool):
        return 2
    if isinstance(v, str):
        return 1
    return 0


def _key(v):
    return v.lower() if isinstance(v, str) else v


def _okval(v, slen=1):
    if not in_dom(v, slen=slen):
        return False
    if isinstance(v, str):
        for c in v:
            if c == "*" or c == "?" or c == "~":
                return False
        if v in ERROR_CODES:
            return False
    return True


def _vec(n, a0, a1, a2, a3, a4, a5):
    return (a0, a1, a2, a3, a4, a5)[:n]


def _le(x, y):
    """x <= y in Excel order (same or different rank), both non-blank"""
    rx, ry = _rank(x), _rank(y)
    if rx != ry:
        return rx < ry
    return _key(x) <= _key(y)


def _sorted_asc(vec):
    """non-blank entries ascending in Excel order, blanks only at the ends"""
    seen_val, seen_trailing_blank, prev = False, False, None
    for x in vec:
        if x is None:
            if seen_val:
                seen_trailing_blank = True
            continue
        if seen_trailing_blank:
            return False
        if seen_val and not _le(prev, x):
            return False
        seen_val, prev = True, x
    return True


def _ref_match0(v, vec):
    for i, x in enumerate(vec):
        if x is None:
            continue
        if _rank(x) == _rank(v) and _key(x) == _key(v):
            return i + 1
    return NA_ERROR


def _check_best(v, vec, r, want_le):
    """r must be #N/A iff no candidate; else hold the extreme candidate value of v's type"""
    best = None
    for x in vec:
        if x is None or _rank(x) != _rank(v):
            continue
        ok = _key(x) <= _key(v) if want_le else _key(x) >= _key(v)
        if ok:
            if best is None:
                best = x
            elif want_le and _key(best) <= _key(x):
                best = x
            elif (not want_le) and _key(best) >= _key(x):
                best = x
    if best is None:
        return same(r, NA_ERROR)
    if isinstance(r, bool) or not isinstance(r, int) or not (1 <= r <= len(vec)):
        return False
    got = vec[r - 1]
    return got is not None and _rank(got) == _rank(v) and _key(got) == _key(best)


# ------------------------------------------------------------------ MATCH
def ob_match0(n, v, a0=None, a1=None, a2=None, a3=None, a4=None, a5=None) -> Optional[bool]:
    """_match(v, a, 0) is the first position whose value equals v (type-strict, case-insensitive) or #N/A"""
    vec = _vec(n, a0, a1, a2, a3, a4, a5)
    if v is None or not _okval(v):
        return None
    for x in vec:
        if not _okval(x):
            return None
    return same(L._match(v, vec, 0), _ref_match0(v, vec))


def ob_match_twice(mt, v: Union[int, bool], w: Union[int, bool], a0: Union[int, bool], a1: Union[int, bool],
                   b0: Union[int, bool]) -> Optional[bool]:
    """two lookups in one history (same process state): each is answered on its own merits, also when the second differs
    from the first only in number-versus-logical type (1 / TRUE, 0 / FALSE compare equal in Python)"""
    vals = []
    for x in (v, w, a0, a1, b0):
        # the five operands range over {0, 1, FALSE, TRUE}: branch them into Python constants, so that the two calls
        # can run with the tracer off (CrossHair by-passes functools.lru_cache under tracing, which would hide
        # exactly the process state this obligation is about)
        if isinstance(x, bool):
            vals.append(True if x else False)
        elif x == 0:
            vals.append(0)
        elif x == 1:
            vals.append(1)
        else:
            return None
    v, w, a0, a1, b0 = vals
    from vf import wb
    with wb.notrace():
        first = L._match(v, (a0, a1), mt)
        second = L._match(w, (b0, a1), mt)
    if mt == 0:
        return same(first, _ref_match0(v, (a0, a1))) and same(second, _ref_match0(w, (b0, a1)))
    if not (_sorted_asc((a0, a1)) and _sorted_asc((b0, a1))):
        return None
    return _check_best(v, (a0, a1), first, True) and _check_best(w, (b0, a1), second, True)


def ob_match1(n, v, a0=None, a1=None, a2=None, a3=None, a4=None, a5=None) -> Optional[bool]:
    """on ascending data _match(v, a, 1) holds the largest value <= v of v's type, else #N/A"""
    vec = _vec(n, a0, a1, a2, a3, a4, a5)
    if v is None or not _okval(v):
        return None
    for x in vec:
        if not _okval(x):
            return None
    if not _sorted_asc(vec):
        return None
    return _check_best(v, vec, L._match(v, vec, 1), True)


def ob_match_m1(n, v, a0=None, a1=None, a2=None, a3=None, a4=None, a5=None) -> Optional[bool]:
    """on descending data _match(v, a, -1) holds the smallest value >= v of v's type, else #N/A"""
    vec = _vec(n, a0, a1, a2, a3, a4, a5)
    if v is None or not _okval(v):
        return None
    for x in vec:
        if not _okval(x) or x is None:
            return None
    if not _sorted_asc(tuple(reversed(vec))):
        return None
    return _check_best(v, vec, L._match(v, vec, -1), False)


def ob_match_wrapped(n, column, mt, v, a0=None, a1=None, a2=None, a3=None, a4=None, a5=None) -> Optional[bool]:
    """the wrapped MATCH on a row / column range equals _match on the flattened vector"""
    vec = _vec(n, a0, a1, a2, a3, a4, a5)
    if v is None or not _okval(v):
        return None
    for x in vec:
        if not _okval(x):
            return None
    rng = tuple((x,) for x in vec) if column else (vec,)
    r = W_MATCH(v, rng, mt)
    if mt == 0:
        return same(r, _ref_match0(v, vec))
    if mt == 1:
        if not _sorted_asc(vec):
            return None
        return _check_best(v, vec, r, True)
    return None


WILD = (("a*", ("ab", "A", "ba", "a"), 1), ("?b", ("b", "ab", "Ab"), 2), ("*", ("", "x"), 1),
        ("b?", ("b", "bcd", "Bc"), 3), ("?b", ("abc", "xab", "Ab"), 3), ("*a?", ("a", "xaby", "xAb"), 3))


def ob_match_wild(wi, k: int, x: Union[int, bool, None]) -> Optional[bool]:
    """wildcard MATCH(...,0) with a non-text cell x inserted at position k: same text match, no exception"""
    pat, vec, exp = WILD[wi]
    if not in_dom(x) or not (0 <= k <= len(vec)):
        return None
    lst = []
    for i in range(len(vec) + 1):
        if i == k:
            lst.append(x)
        if i < len(vec):
            lst.append(vec[i])
    r = L._match(pat, tuple(lst), 0)
    return same(r, exp + (1 if k < exp else 0))


# ------------------------------------------------------------------ VLOOKUP / HLOOKUP / LOOKUP / INDEX
def ob_vlookup_exact(nr, nc, v, c: int, k0=None, k1=None, k2=None, d0: int = 0, d1: int = 0, d2: int = 0,
                     e0: int = 0, e1: int = 0, e2: int = 0) -> Optional[bool]:
    """VLOOKUP(v, t, c, FALSE) = INDEX(t, MATCH(v, col1, 0), c); bad c gives #VALUE!/#REF!; = HLOOKUP on the transpose"""
    keys = (k0, k1, k2)[:nr]
    if v is None or not _okval(v) or not (-2 <= c <= 5):
        return None
    for x in keys:
        if not _okval(x):
            return None
    cols = ((d0, d1, d2), (e0, e1, e2))
    table = tuple((keys[i],) + tuple(cols[j][i] for j in range(nc - 1)) for i in range(nr))
    r = W_VLOOKUP(v, table, c, False)
    tt = tuple(tuple(table[i][j] for i in range(nr)) for j in range(nc))
    r2 = W_HLOOKUP(v, tt, c, False)
    if not same(r, r2):
        return False
    if c <= 0:
        return same(r, VALUE_ERROR)
    if c > nc:
        return same(r, REF_ERROR)
    m = _ref_match0(v, keys)
    if isinstance(m, str):
        return same(r, NA_ERROR)
    return same(r, table[m - 1][c - 1])


def ob_vlookup_approx(nr, v: int, c: int, k0: int = 0, k1: int = 0, k2: int = 0, k3: int = 0,
                      d0: int = 0, d1: int = 0, d2: int = 0, d3: int = 0) -> Optional[bool]:
    """VLOOKUP(v, t, c, TRUE) on an ascending integer key column returns the row of the largest key <= v"""
    keys = (k0, k1, k2, k3)[:nr]
    data = (d0, d1, d2, d3)[:nr]
    if not (in_dom(v) and 1 <= c <= 2):
        return None
    for x in keys:
        if not in_dom(x):
            return None
    if not _sorted_asc(keys):
        return None
    table = tuple((keys[i], data[i]) for i in range(nr))
    r = W_VLOOKUP(v, table, c, True)
    if not same(r, W_HLOOKUP(v, (keys, data), c, True)):
        return False                # VLOOKUP on a table = HLOOKUP on its transpose (approximate match too)
    best = None
    for i in range(nr):
        if keys[i] <= v:
            best = i
    if best is None:
        return same(r, NA_ERROR)
    if c == 1:
        return same(r, keys[best])
    # duplicates: any row holding the best key is acceptable
    ok = False
    for i in range(nr):
        if keys[i] == keys[best] and same(r, data[i]):
            ok = True
    return ok


def ob_lookup_vector(n, v: int, k0: int = 0, k1: int = 0, k2: int = 0, k3: int = 0,
                     d0: int = 0, d1: int = 0, d2: int = 0, d3: int = 0) -> Optional[bool]:
    """LOOKUP(v, keys, results) (vector form, row and column orientation) = results at MATCH(v, keys, 1)"""
    keys = (k0, k1, k2, k3)[:n]
    data = (d0, d1, d2, d3)[:n]
    if not in_dom(v):
        return None
    for x in keys:
        if not in_dom(x):
            return None
    if not _sorted_asc(keys):
        return None
    r_row = W_LOOKUP(v, (keys,), (data,))
    r_col = W_LOOKUP(v, tuple((x,) for x in keys), tuple((x,) for x in data))
    if not same(r_row, r_col):
        return False
    best = None
    for i in range(n):
        if keys[i] <= v:
            best = i
    if best is None:
        return same(r_row, NA_ERROR)
    ok = False
    for i in range(n):
        if keys[i] == keys[best] and same(r_row, data[i]):
            ok = True
    return ok


def ob_lookup_array(nr, nc, v: int, a: int, b: int, cc: int, d: int, e: int = 0, f: int = 0, g: int = 0, h: int = 0,
                    i: int = 0) -> Optional[bool]:
    """array-form LOOKUP(v, t): searches the first column (rows >= columns) else the first row, answers from the
    last column / last row at the position MATCH(v, ., 1) finds"""
    vals = (a, b, cc, d, e, f, g, h, i)
    if not in_dom(v):
        return None
    for x in vals[:nr * nc]:
        if not in_dom(x):
            return None
    table = tuple(tuple(vals[r * nc + c] for c in range(nc)) for r in range(nr))
    if nc <= nr:
        keys = tuple(row[0] for row in table)
        res = tuple(row[-1] for row in table)
    else:
        keys, res = table[0], table[-1]
    if not _sorted_asc(keys):
        return None
    r = W_LOOKUP(v, table)
    best = None
    for k in range(len(keys)):
        if keys[k] <= v:
            best = k
    if best is None:
        return same(r, NA_ERROR)
    ok = False
    for k in range(len(keys)):
        if keys[k] == keys[best] and same(r, res[k]):
            ok = True
    return ok


def ob_index(nr, nc, r: int, c: int, a: int, b: int, cc: int, d: int, e: int, f: int) -> Optional[bool]:
    """INDEX(t, r, c) is t[r][c] in range, #REF! beyond, #VALUE! for negatives"""
    vals = (a, b, cc, d, e, f)
    if not (-2 <= r <= 4 and -2 <= c <= 4):
        return None
    table = tuple(tuple(vals[i * nc + j] for j in range(nc)) for i in range(nr))
    res = W_INDEX(table, r, c)
    if r < 0 or c < 0:
        return same(res, VALUE_ERROR)
    if r >= 1 and c >= 1:
        if r > nr or c > nc:
            return same(res, REF_ERROR)
        return same(res, table[r - 1][c - 1])
    if r == 0 and c == 0:
        return res == table
    if c == 0:       # one index only: a vector is indexed along its length, otherwise whole row r
        if nc == 1:
            return same(res, table[r - 1][0]) if r <= nr else same(res, REF_ERROR)
        if nr == 1:
            return same(res, table[0][r - 1]) if r <= nc else same(res, REF_ERROR)
        if r > nr:
            return same(res, REF_ERROR)
        return tuple(res[0]) == table[r - 1]
    # r == 0: whole column c
    if nr == 1:
        return same(res, table[0][c - 1]) if c <= nc else same(res, REF_ERROR)
    if nc == 1:
        return same(res, table[c - 1][0]) if c <= nr else same(res, REF_ERROR)
    if c > nc:
        return same(res, REF_ERROR)
    return tuple(x[0] for x in res) == tuple(row[c - 1] for row in table)


MIXED = "Union[int, str, bool, None]"
MIXEDV = "Union[int, str, bool]"


def _sig(n, vt, et, extra=""):
    return ", ".join([f"v: {vt}"] + ([extra] if extra else []) + [f"a{i}: {et}" for i in range(n)])


def obligations(tier):
    obs = []

    def add(oid, func, params, sig=None, timeout=90, group="", known=None):
        obs.append(Obligation(PROP, oid, __name__, func, tuple(params), timeout=timeout, float_mode="real",
                              sig=sig, group=group, known=known))
    nint = (1, 2, 3) if tier == "quick" else (1, 2, 3, 4, 5, 6)
    nmix = (1, 2) if tier == "quick" else (1, 2, 3, 4)
    for f in ("ob_match0", "ob_match1", "ob_match_m1"):
        for n in nint:
            add(f"{f[3:]}[int,n={n}]", f, (n,), _sig(n, "int", "Union[int, None]" if f != "ob_match_m1" else "int"),
                timeout=120 if n < 5 else 400, group="match")
        for n in nmix:
            add(f"{f[3:]}[mixed,n={n}]", f, (n,), _sig(n, MIXEDV, MIXED), timeout=150 if n < 3 else 900, group="match")
    for mt in (0, 1):
        add(f"match_twice[{mt}]", "ob_match_twice", (mt,), timeout=200, group="match")
    for column in (True, False):
        for mt in (0, 1):
            for n in ((1, 2) if tier == "quick" else (1, 2, 3)):
                add(f"match_wrapped[{'col' if column else 'row'},{mt},n={n}]", "ob_match_wrapped", (n, column, mt),
                    _sig(n, MIXEDV, MIXED), timeout=150 if n < 3 else 900, group="match")
    for wi in range(len(WILD)):
        add(f"match_wild[{wi}:{WILD[wi][0]}]", "ob_match_wild", (wi,), timeout=60, group="match")
    for nr in (1, 2, 3):
        for nc in (1, 2, 3):
            if tier == "quick" and (nr > 2 or nc > 2):
                continue
            keys = ", ".join(f"k{i}: {MIXED}" for i in range(nr))
            data = ", ".join([f"d{i}: int" for i in range(nr)] if nc > 1 else [])
            data2 = ", ".join([f"e{i}: int" for i in range(nr)] if nc > 2 else [])
            sig = ", ".join(x for x in (f"v: {MIXEDV}", "c: int", keys, data, data2) if x)
            add(f"vlookup_exact[{nr}x{nc}]", "ob_vlookup_exact", (nr, nc), sig, timeout=200 if nr < 3 else 900, group="vlookup")
    for nr in (1, 2, 3, 4):
        sig = ", ".join(["v: int", "c: int"] + [f"k{i}: int" for i in range(nr)] + [f"d{i}: int" for i in range(nr)])
        add(f"vlookup_approx[n={nr}]", "ob_vlookup_approx", (nr,), sig, timeout=150, group="vlookup")
        sig = ", ".join(["v: int"] + [f"k{i}: int" for i in range(nr)] + [f"d{i}: int" for i in range(nr)])
        add(f"lookup_vector[n={nr}]", "ob_lookup_vector", (nr,), sig, timeout=150, group="lookup")
    for nr, nc in ((2, 2), (2, 3), (3, 2)) + (((3, 3),) if tier == "thorough" else ()):
        sig = ", ".join(["v: int"] + [f"{n}: int" for n in ("a", "b", "cc", "d", "e", "f", "g", "h", "i")[:nr * nc]])
        add(f"lookup_array[{nr}x{nc}]", "ob_lookup_array", (nr, nc), sig, timeout=200, group="lookup")
    for nr, nc in ((1, 1), (1, 3), (3, 1), (2, 2), (2, 3), (3, 2)):
        add(f"index[{nr}x{nc}]", "ob_index", (nr, nc), timeout=120, group="index")
    return obs
