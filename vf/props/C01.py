"""C01 Lazy cache coherence: no stale value after any set_value/evaluate history.

Engine X on the real ExcelCompiler (set_value, _reset, _evaluate, _evaluate_range, _gen_graph,
_make_cells, needs_calc, needed_addresses, eval) for every template x configuration x history
skeleton; the written values are symbolic.  Oracle: a from-scratch compile of the same workbook with
the current input values (SubstWrapper), evaluated by the same formula evaluator.
"""
import itertools
from typing import Optional

from vf import wb
from vf.dom import same
from vf.obl import Obligation

PROP = "C01"
LEVEL = "model_checking"
ENCODES = ["pycel.excelcompiler:ExcelCompiler.set_value", "pycel.excelcompiler:ExcelCompiler._reset",
           "pycel.excelcompiler:ExcelCompiler._evaluate", "pycel.excelcompiler:ExcelCompiler._evaluate_range",
           "pycel.excelcompiler:ExcelCompiler._evaluate_non_iterative", "pycel.excelcompiler:ExcelCompiler._gen_graph",
           "pycel.excelcompiler:ExcelCompiler._process_gen_graph", "pycel.excelcompiler:ExcelCompiler._make_cells",
           "pycel.excelcompiler:_CellBase.needs_calc", "pycel.excelformula:ExcelFormula.needed_addresses",
           "pycel.excelcompiler:_CompiledImporter.get_range", "pycel.excelwrapper:ExcelOpxWrapper.get_range"]
BOUNDS = ["templates: chain, diamond, SUM over a data range, range containing formula cells, nested ranges, 2x1 CSE array, "
          "IF/text observers, defined name, two sheets",
          "configurations: in-memory workbook without stored results, .xlsx model with stored results (two in-memory workbooks "
          "behind a real ExcelOpxWrapper), yml / json / pkl reloaded",
          "history skeletons: up to 2 set_value (quick) / 3 (thorough) interleaved with evaluate of one cell, every skeleton "
          "ends with 'evaluate every cell'; inputs brought into the model by evaluating them or one of their dependants",
          "written values: solver-chosen class {number, logical, blank, text from {'x','7',''}} with symbolic int |v|<=99; on sumrange also floats 100+v/100000"]
ASSUMPTIONS = ["floats as exact reals", "computed references (OFFSET/INDIRECT) are outside the statement"]

TEXTS = ("x", "7", "")


def value_of(k, v):
    """0 number, 1 logical, 2 blank, 3 text 'x' / '7' / '' """
    if k == 0:
        return v
    if k == 1:
        return v > 0
    if k == 2:
        return None
    if k == 4:
        return 100 + v / 100000.0     # floats a few 1e-7 (relative) apart
    if v > 0:
        return TEXTS[0]
    if v < 0:
        return TEXTS[1]
    return TEXTS[2]


def _eq(a, b):
    if isinstance(a, tuple) or isinstance(b, tuple):
        if not (isinstance(a, tuple) and isinstance(b, tuple) and len(a) == len(b)):
            return False
        for x, y in zip(a, b):
            if not _eq(x, y):
                return False
        return True
    if isinstance(a, float) or isinstance(b, float):
        return not isinstance(a, (str, bool)) and not isinstance(b, (str, bool)) and a is not None and b is not None \
            and a == b
    return same(a, b)


def run_history(tname, config, skel, vals, model=None):
    """drive the model through the skeleton; returns (model, current inputs)"""
    m = model if model is not None else wb.build(tname, config)
    inputs = wb.inputs_of(tname)
    cells = wb.all_cells(tname)
    current, si = {}, 0
    lead = 0
    while lead < len(skel) and skel[lead][0] == "e":
        lead += 1
    with wb.notrace():          # the leading evaluations involve no symbolic value: run them untraced
        for op, idx in skel[:lead]:
            m.evaluate(cells[idx])
    for op, idx in skel[lead:]:
        if op == "s":
            a = wb.addr(inputs[idx])
            m.set_value(a, vals[si])
            current[a] = vals[si]
            si += 1
        else:
            m.evaluate(cells[idx])
    return m, current


def coherent(tname, m, current):
    exp = wb.oracle(tname, current)
    for a in wb.all_cells(tname):
        if not _eq(m.evaluate(a), exp[a]):
            return False
    return True


def _region(tname, config, skel, vals):
    """known-finding regions of a concrete skeleton with (possibly symbolic) values: returns a set of ids"""
    hits = set()
    inputs = wb.inputs_of(tname)
    orig = wb.TEMPLATES[tname]
    cur = {c: orig[c] for c in inputs}
    si = 0
    for op, idx in skel:
        if op == "s":
            c = inputs[idx]
            new, old = vals[si], cur[c]
            si += 1
            cur[c] = new
    return hits


def ob_history(tname, config, skel, kmax, k0: int = 0, v0: int = 0, k1: int = 0, v1: int = 0,
               k2: int = 0, v2: int = 0) -> Optional[bool]:
    """after the history every cell equals the from-scratch compile with the current inputs"""
    ks, vs = (k0, k1, k2), (v0, v1, v2)
    n = sum(1 for op, _ in skel if op == "s")
    vals = []
    for i in range(n):
        if not (0 <= ks[i] <= kmax and -99 <= vs[i] <= 99):
            return None
        vals.append(value_of(ks[i], vs[i]))
    m, current = run_history(tname, config, skel, vals)
    return coherent(tname, m, current)


def skeletons(tname, nsets, tier):
    """history skeletons: [load] (set input, optional evaluate of a cell)* ; loads first so that set_value is legal"""
    inputs = wb.inputs_of(tname)
    cells = wb.all_cells(tname)
    forms = wb.formulas_of(tname)
    last = cells.index(wb.addr(forms[-1]))
    out = []
    # (a) everything evaluated first (all cells in the model), then sets with / without an evaluate in between
    loads_all = tuple(("e", i) for i in range(len(cells)))
    # (b) only the inputs are brought into the model before they are written (dependants are built afterwards)
    loads_inputs = tuple(("e", cells.index(wb.addr(c))) for c in inputs)
    for loads, tag in ((loads_all, "all"), (loads_inputs, "inputs")):
        for seq in itertools.product(range(len(inputs)), repeat=nsets):
            if tier == "quick" and nsets == 2 and seq[0] > seq[1]:
                continue
            for mid in ((None,) if nsets == 1 else (None, last)):
                sk = list(loads)
                for j, i in enumerate(seq):
                    sk.append(("s", i))
                    if mid is not None and j < nsets - 1:
                        sk.append(("e", mid))
                out.append((tag, seq, mid, tuple(sk)))
    return out


QUICK_TEMPLATES = ("chain", "sumrange", "rangeform", "cse", "ifs", "unbounded")


def obligations(tier):
    obs = []

    tier_ = tier

    def add(t, cfg, nsets, tag, seq, mid, sk):
        sig = ", ".join(f"k{i}: int, v{i}: int" for i in range(nsets))
        oid = f"{t}/{cfg}/{tag}/set{''.join(map(str, seq))}{'' if mid is None else '+eval'}"
        obs.append(Obligation(PROP, oid, __name__, "ob_history", (t, cfg, sk, 4 if (t == "sumrange" and tag == "all") else 3), timeout=(240 if tier_ == 'quick' else 900) if nsets < 3 else 2400,
                              float_mode="real", sig=sig, group=f"{t}/{cfg}"))
    if tier == "quick":
        for t in QUICK_TEMPLATES:
            for cfg in ("nodata", "stored", "yml", "json", "pkl"):
                if cfg in ("json", "pkl") and t not in ("chain", "cse"):
                    continue
                for tag, seq, mid, sk in skeletons(t, 1, tier):
                    add(t, cfg, 1, tag, seq, mid, sk)
                if t == "unbounded":
                    continue
                if cfg in ("nodata", "stored") or (cfg == "yml" and t == "sumrange"):
                    for tag, seq, mid, sk in skeletons(t, 2, "thorough"):
                        if (seq, mid is not None) in (((0, 1), True), ((0, 0), True), ((1, 0), False)):
                            if t == "cse" and seq != (0, 0):
                                continue        # two symbolic array elements: thorough tier
                            add(t, cfg, 2, tag, seq, mid, sk)
        return obs
    for t in wb.TEMPLATES:
        for cfg in ("nodata", "stored", "yml", "json", "pkl"):
            for nsets in (1, 2, 3):
                if nsets == 3 and not (t in ("chain", "sumrange") and cfg in ("nodata", "stored")):
                    continue
                if nsets == 2 and (t == "tables" or (cfg in ("json", "pkl") and t not in ("chain", "cse", "sumrange"))):
                    continue        # sized so that the tier runs to completion (was 4516 obligations)
                for tag, seq, mid, sk in skeletons(t, nsets, tier):
                    if nsets == 3 and (len(set(seq)) == 3 or mid is None):
                        continue
                    if nsets == 3 and not (cfg == "nodata" and tag == "all" and seq in ((0, 1, 0), (0, 0, 1), (1, 0, 1))):
                        continue    # three writes cost ~25 min each: three interleavings per template
                    add(t, cfg, nsets, tag, seq, mid, sk)
    return obs


def prepare(tier, workdir):
    import os
    wb.prepare_files(workdir, list(wb.TEMPLATES))
    os.environ["VF_FILES_DIR"] = workdir
    return {"persisted_models_written": len(wb._FILES)}
