"""C15 Conditional aggregation (...IF/...IFS) selects exactly the matching cells.

Engine X on the real criteria_parser / build_wildcard_re / handle_ifs / find_corresponding_index
and countif(s) / sumif(s) / averageif(s) / maxifs / minifs.  Criteria text is concrete (it goes
through regexes), each with a hand-written reference predicate; range cells (class and value),
the sum range and numeric criteria values are symbolic.
"""
from typing import Optional

from pycel.excellib import sumif, sumifs
from pycel.excelutil import DIV0, VALUE_ERROR
from pycel.lib.stats import averageif, averageifs, countif, countifs, maxifs, minifs

from vf.dom import same
from vf.obl import Obligation

PROP = "C15"
LEVEL = "model_checking"
ENCODES = ["pycel.excelutil:criteria_parser", "pycel.excelutil:build_wildcard_re", "pycel.excelutil:handle_ifs",
           "pycel.excelutil:find_corresponding_index_generator", "pycel.lib.stats:countif", "pycel.lib.stats:countifs",
           "pycel.excellib:sumif", "pycel.excellib:sumifs", "pycel.lib.stats:averageif", "pycel.lib.stats:averageifs",
           "pycel.lib.stats:maxifs", "pycel.lib.stats:minifs", "pycel.excellib:_numerics"]
BOUNDS = ["criteria from a concrete pool of 20 (number, op number, text, op text, wildcards, '', '=', '<>'); numeric criteria passed as numbers are symbolic ints",
          "criteria ranges 1x2, 2x1, 1x3 (quick), + 2x2, 3x1, 1x4 (thorough); cell = solver-chosen class {number, logical, blank, text from pool} with symbolic int value |v|<=99",
          "1..2 criteria pairs (3 in thorough on 1x2)",
          "outside the claim: logical cells against numeric criteria, numeric-looking text against '<>number' (the statement does not pin them)"]
ASSUMPTIONS = ["floats as exact reals (AVERAGEIF quotient)"]

TEXTS = ("ab", "B", "5", "a?")      # cell text pool: v>0 / v<=0 selects within pairs


def _cell(k, v):
    """0 number, 1 logical, 2 blank, 3 text 'ab'/'B', 4 text '5'/'a?' """
    if k == 0:
        return v
    if k == 1:
        return v > 0
    if k == 2:
        return None
    if k == 3:
        return TEXTS[0] if v > 0 else TEXTS[1]
    return TEXTS[2] if v > 0 else TEXTS[3]


def _build(n, ks, vs):
    cells = []
    for i in range(n):
        k, v = ks[i], vs[i]
        if not (0 <= k <= 4 and -99 <= v <= 99):
            return None
        cells.append(_cell(k, v))
    return tuple(cells)


def _rect(cells, r, c):
    return tuple(tuple(cells[i * c + j] for j in range(c)) for i in range(r))


def _isnum(x):
    return isinstance(x, int) and not isinstance(x, bool)


def _numval(x):
    """number a cell denotes for numeric criteria: numbers and numeric text"""
    if _isnum(x):
        return x
    if isinstance(x, str) and x == "5":
        return 5
    return None


# reference predicates --------------------------------------------------------
def _p_num(op, n):
    def p(x):
        if isinstance(x, bool):
            return None                     # outside the claim
        v = _numval(x)
        if op == "=":
            return v is not None and v == n
        if op == "<>":
            if isinstance(x, str) and v is not None:
                return None                 # outside the claim
            return not (v is not None and v == n)
        if not _isnum(x):
            return False                    # text and blanks never satisfy < >
        if op == "<":
            return x < n
        if op == "<=":
            return x <= n
        if op == ">":
            return x > n
        return x >= n
    return p


def _p_text_eq(s):
    def p(x):
        return isinstance(x, str) and x.lower() == s
    return p


def _p_text_ne(s):
    def p(x):
        return not (isinstance(x, str) and x.lower() == s)
    return p


def _wild(pred):
    def p(x):
        return isinstance(x, str) and pred(x.lower())
    return p


def _p_blank(x):
    return x is None or (isinstance(x, str) and x == "")


def _p_nonblank(x):
    return not _p_blank(x)


def _p_text_gt(s):
    def p(x):
        return isinstance(x, str) and x.lower() > s
    return p


CRITERIA = (
    (5, _p_num("=", 5)), ("5", _p_num("=", 5)), ("=5", _p_num("=", 5)), (">3", _p_num(">", 3)),
    ("<=3", _p_num("<=", 3)), ("<0", _p_num("<", 0)), (">=-2", _p_num(">=", -2)), ("<>5", _p_num("<>", 5)),
    ("ab", _p_text_eq("ab")), ("=AB", _p_text_eq("ab")), ("<>ab", _p_text_ne("ab")), ("b", _p_text_eq("b")),
    ("a*", _wild(lambda t: t[:1] == "a")), ("?", _wild(lambda t: len(t) == 1)),
    ("*b", _wild(lambda t: t[-1:] == "b")), ("?b", _wild(lambda t: len(t) == 2 and t[1] == "b")),
    ("", _p_blank), ("=", _p_blank), ("<>", _p_nonblank), (">aa", _p_text_gt("aa")),
)


def _sel(ci, cells):
    """reference selection; None if some cell is outside the claim for this criterion"""
    pred = CRITERIA[ci][1]
    out = []
    for x in cells:
        m = pred(x)
        if m is None:
            return None
        out.append(m)
    return out


K6 = "k0: int = 2, k1: int = 2, k2: int = 2, k3: int = 2, v0: int = 0, v1: int = 0, v2: int = 0, v3: int = 0"


def ob_countif(ci, r, c, k0: int = 2, k1: int = 2, k2: int = 2, k3: int = 2,
               v0: int = 0, v1: int = 0, v2: int = 0, v3: int = 0) -> Optional[bool]:
    """COUNTIF = COUNTIFS(1 pair) = number of cells satisfying the reference predicate; never raises"""
    n = r * c
    cells = _build(n, (k0, k1, k2, k3), (v0, v1, v2, v3))
    if cells is None:
        return None
    crit = CRITERIA[ci][0]
    rect = _rect(cells, r, c)
    got, got2 = countif(rect, crit), countifs(rect, crit)
    sel = _sel(ci, cells)
    if sel is None:
        return isinstance(got, int) and same(got, got2)
    exp = 0
    for m in sel:
        if m:
            exp += 1
    return same(got, exp) and same(got2, exp)


def ob_sumif(ci, r, c, k0: int = 2, k1: int = 2, k2: int = 2, k3: int = 2, v0: int = 0, v1: int = 0, v2: int = 0,
             v3: int = 0, s0: int = 0, s1: int = 0, s2: int = 0, s3: int = 0) -> Optional[bool]:
    """SUMIF/SUMIFS/AVERAGEIF(S)/MAXIFS/MINIFS aggregate exactly the sum-range cells at matching positions"""
    n = r * c
    cells = _build(n, (k0, k1, k2, k3), (v0, v1, v2, v3))
    if cells is None:
        return None
    sums = (s0, s1, s2, s3)[:n]
    for s in sums:
        if not -99 <= s <= 99:
            return None
    crit = CRITERIA[ci][0]
    rect, srect = _rect(cells, r, c), _rect(sums, r, c)
    g_sumif, g_sumifs = sumif(rect, crit, srect), sumifs(srect, rect, crit)
    g_avgif, g_avgifs = averageif(rect, crit, srect), averageifs(srect, rect, crit)
    g_max, g_min = maxifs(srect, rect, crit), minifs(srect, rect, crit)
    if not (same(g_sumif, g_sumifs) and (same(g_avgif, g_avgifs) or g_avgif == g_avgifs)):
        return False
    sel = _sel(ci, cells)
    if sel is None:
        return not isinstance(g_sumif, str)
    tot, cnt, mx, mn = 0, 0, None, None
    for i in range(n):
        if sel[i]:
            tot += sums[i]
            cnt += 1
            if mx is None or sums[i] > mx:
                mx = sums[i]
            if mn is None or sums[i] < mn:
                mn = sums[i]
    if not same(g_sumif, tot):
        return False
    if cnt == 0:
        return same(g_avgif, DIV0) and same(g_max, 0) and same(g_min, 0)
    return (not isinstance(g_avgif, (str, bool))) and g_avgif * cnt == tot and same(g_max, mx) and same(g_min, mn)


def ob_sumif_self(ci, r, c, k0: int = 2, k1: int = 2, k2: int = 2, k3: int = 2,
                  v0: int = 0, v1: int = 0, v2: int = 0, v3: int = 0) -> Optional[bool]:
    """SUMIF without a sum range sums the matching numeric cells of the criteria range itself"""
    n = r * c
    cells = _build(n, (k0, k1, k2, k3), (v0, v1, v2, v3))
    if cells is None:
        return None
    for x in cells:
        if isinstance(x, bool):
            return None     # logical cells kept by _numerics(keep_bools=True): outside the claim
    got = sumif(_rect(cells, r, c), CRITERIA[ci][0])
    sel = _sel(ci, cells)
    if sel is None:
        return not isinstance(got, str)
    tot = 0
    for i in range(n):
        if sel[i] and _isnum(cells[i]):
            tot += cells[i]
    return same(got, tot)


def ob_two_criteria(ci, cj, n, k0: int = 2, k1: int = 2, k2: int = 2, v0: int = 0, v1: int = 0, v2: int = 0,
                    l0: int = 2, l1: int = 2, l2: int = 2, w0: int = 0, w1: int = 0, w2: int = 0) -> Optional[bool]:
    """COUNTIFS with two pairs counts positions satisfying both; the pairs commute; SUMIFS likewise"""
    a = _build(n, (k0, k1, k2), (v0, v1, v2))
    b = _build(n, (l0, l1, l2), (w0, w1, w2))
    if a is None or b is None:
        return None
    ra, rb = (a,), (b,)
    c1, c2 = CRITERIA[ci][0], CRITERIA[cj][0]
    g12, g21 = countifs(ra, c1, rb, c2), countifs(rb, c2, ra, c1)
    if not same(g12, g21):
        return False
    ones = (tuple(1 for _ in range(n)),)
    if not same(sumifs(ones, ra, c1, rb, c2), g12):
        return False
    sa, sb = _sel(ci, a), _sel(cj, b)
    if sa is None or sb is None:
        return isinstance(g12, int)
    exp = 0
    for i in range(n):
        if sa[i] and sb[i]:
            exp += 1
    return same(g12, exp)


def ob_same_pair_twice(ci, k0: int = 2, k1: int = 2, v0: int = 0, v1: int = 0) -> Optional[bool]:
    """a criteria pair given twice (same range, same criterion; or an equal copy of the range) changes nothing:
    COUNTIFS(r,c,r,c) = COUNTIFS(r,c,r',c) = COUNTIF(r,c), SUMIFS likewise"""
    cells = _build(2, (k0, k1), (v0, v1))
    if cells is None:
        return None
    rect, copy = (cells,), (tuple(x for x in cells),)
    crit = CRITERIA[ci][0]
    one = countif(rect, crit)
    ones = ((1, 1),)
    return same(countifs(rect, crit, rect, crit), one) and same(countifs(rect, crit, copy, crit), one) and \
        same(sumifs(ones, rect, crit, copy, crit), one)


def ob_partition(x, n, region, k0: int = 2, k1: int = 2, k2: int = 2, k3: int = 2,
                 v0: int = 0, v1: int = 0, v2: int = 0, v3: int = 0) -> Optional[bool]:
    """COUNTIF(r, "=x") + COUNTIF(r, "<>x") = number of cells.  region=False: no cell holds the text rendering
    of a numeric x (known finding C15-numeric-text-in-both); region=True: the same assertion inside that region"""
    cells = _build(n, (k0, k1, k2, k3), (v0, v1, v2, v3))
    if cells is None:
        return None
    inside = False
    for c in cells:
        if isinstance(c, str) and c == x and x == "5":
            inside = True
    if inside != region:
        return None
    rect = (cells,)
    return countif(rect, "=" + x) + countif(rect, "<>" + x) == n


def ob_numeric_criterion(op, n, q: int, k0: int = 2, k1: int = 2, k2: int = 2, v0: int = 0, v1: int = 0,
                         v2: int = 0) -> Optional[bool]:
    """a numeric criterion passed as a number q (symbolic) selects the numeric cells equal to q;
    AVERAGEIFS = SUMIFS / COUNTIFS over numeric data"""
    cells = _build(n, (k0, k1, k2), (v0, v1, v2))
    if cells is None or not -99 <= q <= 99:
        return None
    rect = (cells,)
    pred = _p_num("=", q)
    exp, tot = 0, 0
    for x in cells:
        m = pred(x)
        if m is None:
            return None
        if m:
            exp += 1
            tot += _numval(x) if _isnum(x) else 0
    if not same(countif(rect, q), exp):
        return False
    numeric_only = True
    for x in cells:
        if not _isnum(x):
            numeric_only = False
    if numeric_only:
        c, s, a = countifs(rect, q), sumifs(rect, rect, q), averageifs(rect, rect, q)
        if c == 0:
            return same(a, DIV0)
        return a * c == s
    return True


def ob_size_mismatch(k0: int, v0: int, k1: int, v1: int) -> Optional[bool]:
    """criteria ranges / sum range of different shapes give #VALUE!"""
    cells = _build(2, (k0, k1), (v0, v1))
    if cells is None:
        return None
    return same(countifs((cells,), ">0", ((1,), (2,)), ">0"), VALUE_ERROR) and \
        same(sumifs(((1,), (2,)), (cells,), ">0"), VALUE_ERROR)


def obligations(tier):
    obs = []

    def sig(n, extra=()):
        return ", ".join([f"k{i}: int" for i in range(n)] + [f"v{i}: int" for i in range(n)] + list(extra))

    def add(oid, func, params, s=None, timeout=120, group=""):
        obs.append(Obligation(PROP, oid, __name__, func, tuple(params), timeout=timeout, float_mode="real",
                              sig=s, group=group))
    shapes = ((1, 2), (2, 1)) if tier == "quick" else ((1, 2), (2, 1), (1, 3), (2, 2), (3, 1), (1, 4))
    for ci in range(len(CRITERIA)):
        cname = repr(CRITERIA[ci][0])
        for r, c in shapes:
            n = r * c
            if tier == "quick" and (r, c) == (2, 1) and ci % 2:
                continue
            add(f"countif[{cname},{r}x{c}]", "ob_countif", (ci, r, c), sig(n), 120 if n < 4 else 400, "countif")
        for r, c in (((1, 2),) if tier == "quick" else ((1, 2), (2, 1), (1, 3))):
            n = r * c
            add(f"sumif[{cname},{r}x{c}]", "ob_sumif", (ci, r, c), sig(n, [f"s{i}: int" for i in range(n)]),
                200 if n < 3 else 900, "sumif")
            add(f"sumif_self[{cname},{r}x{c}]", "ob_sumif_self", (ci, r, c), sig(n), 120, "sumif")
    pairs = ((3, 8), (0, 12), (10, 4), (16, 18), (13, 7), (19, 1))
    if tier == "thorough":
        pairs = tuple((i, j) for i in range(len(CRITERIA)) for j in range(len(CRITERIA)) if (i * 7 + j) % 9 == 0)
    for ci, cj in pairs:
        n = 1 if tier == "quick" else 2
        s = ", ".join([f"k{i}: int" for i in range(n)] + [f"v{i}: int" for i in range(n)] +
                      [f"l{i}: int" for i in range(n)] + [f"w{i}: int" for i in range(n)])
        add(f"two_criteria[{CRITERIA[ci][0]!r},{CRITERIA[cj][0]!r}]", "ob_two_criteria", (ci, cj, n), s, 200 if n == 1 else 1500, "ifs")
    for ci in ((3, 8, 12, 16) if tier == "quick" else range(len(CRITERIA))):
        add(f"same_pair_twice[{CRITERIA[ci][0]!r}]", "ob_same_pair_twice", (ci,), sig(2), 120, "ifs")
    for x in ("5", "ab", "", "a*"):
        add(f"partition[{x!r}]", "ob_partition", (x, 3, False), sig(3), 120, "partition")
    obs.append(Obligation(PROP, "partition_known['5']", __name__, "ob_partition", ("5", 2, True), timeout=60,
                          float_mode="real", sig=sig(2), group="partition", known="C15-numeric-text-in-both"))
    add("numeric_criterion[n=3]", "ob_numeric_criterion", ("=", 3), "q: int, " + sig(3), 200, "numeric")
    add("size_mismatch", "ob_size_mismatch", (), None, 60, "shape")
    return obs
