"""C02 Formula translation is meaning-preserving (precedence, associativity, literals).

Level: translation validation.  The real pipeline (Tokenizer._items, _parse_to_rpn, _build_ast, emit,
_compile_python_ast) runs on each enumerated formula text; the compiled lambda is then executed
symbolically with the cell values as solver variables and compared with the reference grammar
(vf/refgrammar.py):
  * uninterpreted: the operator semantics is replaced, in the evaluation namespace, by a free constructor
    (op, left, right) - equality of the two terms for symbolic leaves decides precedence, associativity,
    parenthesisation, unary/postfix handling independently of arithmetic;
  * interpreted: the real fixup on both sides, leaves symbolic ints, for formulas whose * / ^ have a literal operand;
  * literals: OperandNode.emit runs on a symbolic text token and the emitted Python literal is decoded by a model of
    Python's string escapes (validated against ast.literal_eval) - it must denote exactly the characters.
"""
import ast
import itertools
import random
from typing import Optional

import pycel.excelformula as EF
from pycel.excelformula import ASTNode, ExcelFormula, Token
from pycel.excelutil import build_operator_operand_fixup

from vf import refgrammar as G
from vf import vfplugin
from vf.dom import same
from vf.obl import Obligation

PROP = "C02"
LEVEL = "translation_validation"
ENCODES = ["pycel.excelformula:Tokenizer._items", "pycel.excelformula:ExcelFormula._parse_to_rpn",
           "pycel.excelformula:ExcelFormula._build_ast", "pycel.excelformula:OperatorNode.emit",
           "pycel.excelformula:OperandNode.emit", "pycel.excelformula:ExcelFormula._compile_python_ast",
           "pycel.excelformula:ExcelFormula.build_eval_context", "pycel.excelutil:build_operator_operand_fixup"]
BOUNDS = ["all two-operator strings a o1 b o2 c over the 12 binary operators (144), unary minus / postfix % variants, both "
          "parenthesisations, whitespace and function-name-case renderings, operators inside a function call; three-operator strings "
          "(1728) in the thorough tier plus VERIF_SEED-sampled depth-4 strings",
          "leaves: cell references with symbolic int values |v|<=9; operators uninterpreted (free constructor) or the real fixup",
          "literals: text content symbolic, len<=3 over all of Unicode (emit + escape-model); numbers, TRUE/FALSE and the seven error "
          "literals enumerated",
          "reference forms (ranges, names, intersections) are C04's subject"]
ASSUMPTIONS = ["the reference grammar vf/refgrammar.py encodes the statement's precedence table",
               "model of Python string-literal escapes (validated exhaustively on a 10-character critical alphabet, len<=3)"]

OPS = ("+", "-", "*", "/", "^", "&", "=", "<>", "<", "<=", ">", ">=")
LEAVES = ("A1", "B1", "C1", "D1", "E1")
REAL_FIXUP = build_operator_operand_fixup(lambda *a: None)
_REAL_BUILDER = EF.build_operator_operand_fixup


def _free(left, op, right):
    return (op, None if op == "USub" else left, right)


def _compiled_value(text, env, herbrand):
    """run the real pipeline on `text` and evaluate the compiled lambda with _C_ reading env"""
    def cell(address):
        return env[str(address).split("!")[-1]]

    def rng(address):
        raise AssertionError("no ranges in C02 formulas")
    EF.build_operator_operand_fixup = (lambda cap: _free) if herbrand else _REAL_BUILDER
    try:
        ev = ExcelFormula.build_eval_context(cell, rng, plugins=("vf.vfplugin",))
        return ev(ExcelFormula(text))
    finally:
        EF.build_operator_operand_fixup = _REAL_BUILDER


def _call(name, args):
    if name == "VTERM":
        return vfplugin.vterm(*args)
    raise AssertionError(name)


def ob_herbrand(text, nleaves, a: int = 0, b: int = 0, c: int = 0, d: int = 0, e: int = 0) -> Optional[bool]:
    """with uninterpreted operators the compiled formula denotes the same term as the reference parse, for all leaf values"""
    vals = (a, b, c, d, e)
    for v in vals[:nleaves]:
        if not -9 <= v <= 9:
            return None
    env = dict(zip(LEAVES, vals))
    got = _compiled_value(text, env, True)
    exp = G.evaluate(G.parse(text), env, _free, _call)
    return got == exp


def ob_interp(text, nleaves, a: int = 0, b: int = 0, c: int = 0, d: int = 0, e: int = 0) -> Optional[bool]:
    """with the real operator semantics the compiled formula evaluates to what the reference tree evaluates to"""
    vals = (a, b, c, d, e)
    for v in vals[:nleaves]:
        if not -9 <= v <= 9:
            return None
    env = dict(zip(LEAVES, vals))
    got = _compiled_value(text, env, False)
    exp = G.evaluate(G.parse(text), env, REAL_FIXUP, _call)
    if exp is None:
        exp = 0
    return same(got, exp) or (isinstance(exp, float) and not isinstance(got, (str, bool)) and got == exp)


def decode_py_literal(body):
    """model of Python's double-quoted string literal body -> characters (the escapes OperandNode.emit can produce)"""
    out, i, n = "", 0, len(body)
    while i < n:
        ch = body[i]
        if ch == "\\":
            if i + 1 >= n:
                return None                  # dangling backslash: not a valid literal
            nx = body[i + 1]
            if nx == "\\":
                out = out + "\\"
            elif nx == '"':
                out = out + '"'
            elif nx == "n":
                out = out + "\n"
            elif nx == "r":
                out = out + "\r"
            else:
                return None                  # any other escape would not denote itself
            i += 2
        elif ch == '"' or ch == "\n" or ch == "\r":
            return None                      # would terminate / break the literal
        else:
            out = out + ch
            i += 1
    return out


def ob_text_literal(s: str) -> Optional[bool]:
    """a text literal with content s (quotes doubled in the formula) is emitted as a Python literal denoting exactly s"""
    if len(s) > 3:
        return None
    token_text = '"' + s.replace('"', '""') + '"'
    node = ASTNode.create(Token(token_text, Token.OPERAND, Token.TEXT))
    lit = node.emit
    if not (len(lit) >= 2 and lit[0] == '"' and lit[-1] == '"'):
        return False
    return decode_py_literal(lit[1:-1]) == s


TEXT_POOL = ('a"b', "back\\slash", "tail\\", "new\nline", "{brace}", "tab\there", "'single'", "uni é中", "%d {0}", '""', "\\n", "a\\\"b")


def ob_text_formula(ti, a: int) -> Optional[bool]:
    """a whole formula ="<text>"&A1 evaluates to the text followed by the rendering of A1"""
    if not -99 <= a <= 99:
        return None
    s = TEXT_POOL[ti]
    text = '="' + s.replace('"', '""') + '"&A1'
    return same(_compiled_value(text, {"A1": a}, False), s + str(a))


LITERALS = (("=7", 7), ("=0", 0), ("=1.5", 1.5), ("=1E3", 1000.0), ("=TRUE", True), ("=FALSE", False),
            ("=#N/A", "#N/A"), ("=#DIV/0!", "#DIV/0!"), ("=#VALUE!", "#VALUE!"), ("=#REF!", "#REF!"), ("=#NAME?", "#NAME?"),
            ("=#NUM!", "#NUM!"), ("=#NULL!", "#NULL!"), ('=""', ""), ('=" "', " "))


def ob_literal(li, a: int) -> Optional[bool]:
    """literals denote themselves (also as an operand of = and &)"""
    if not -9 <= a <= 9:
        return None
    text, val = LITERALS[li]
    if not same(_compiled_value(text, {}, False), val):
        return False
    got = _compiled_value(text + "&A1", {"A1": a}, True)
    return got == ("BitAnd", val, a)


def validate_decoder():
    """the escape model agrees with ast.literal_eval on every string of length <= 3 over a critical alphabet"""
    alpha = ['\\', '"', 'n', 'r', 'a', '\n', '\r', "'", 'x', '0']
    n = 0
    for L in range(0, 4):
        for tup in itertools.product(alpha, repeat=L):
            body = "".join(tup)
            try:
                real = ast.literal_eval('"' + body + '"')
                if not isinstance(real, str):
                    real = None
            except Exception:  # noqa
                real = None
            mine = decode_py_literal(body)
            n += 1
            if mine is not None and mine != real:
                raise AssertionError(f"escape model disagrees with Python on {body!r}: {mine!r} vs {real!r}")
    return n


def prepare(tier, workdir):
    return {"validated_rows": validate_decoder(), "decoder_validated_against": "ast.literal_eval, alphabet of 10 characters, len<=3"}


def _nleaves(text):
    return max(i + 1 for i, l in enumerate(LEAVES) if l in text.upper()) if any(l in text.upper() for l in LEAVES) else 0


def _linear(text):
    """interpreted obligations only where * / ^ have a literal operand and there is no & on computed numbers"""
    return not any(o in text for o in ("*", "/", "^", "%"))


def formulas(tier, seed):
    out = []
    for o1, o2 in itertools.product(OPS, repeat=2):
        out.append(("two", f"=A1{o1}B1{o2}C1"))
    for o in OPS:
        out.append(("unary", f"=-A1{o}B1"))
        out.append(("unary", f"=A1{o}-B1"))
        out.append(("unary", f"=A1%{o}B1"))
        out.append(("unary", f"=A1{o}B1%"))
        out.append(("unary", f"=-A1%{o}B1"))
        out.append(("unary", f"=A1{o}+B1"))
        out.append(("unary", f"=--A1{o}B1"))
    pairs = list(itertools.product(OPS, repeat=2))
    if tier == "quick":
        rnd = random.Random(1)
        rnd.shuffle(pairs)
        pairs = pairs[:30]
    for o1, o2 in pairs:
        out.append(("paren", f"=(A1{o1}B1){o2}C1"))
        out.append(("paren", f"=A1{o1}(B1{o2}C1)"))
    for o1, o2 in pairs[:20]:
        out.append(("space", f"= A1 {o1}  B1 {o2} C1 "))
        out.append(("func", f"=VTERM(A1{o1}B1,C1){o2}D1"))
        out.append(("func", f"=vterm( A1 {o1} B1 , C1{o2}D1 )"))
        out.append(("func", f"=A1{o1}VTerm(B1{o2}C1)"))
        out.append(("mixed", f"=2{o1}B1{o2}3"))
    out.append(("unary", "=-A1^2"))
    out.append(("unary", "=2^-A1"))
    out.append(("unary", "=-A1^-B1"))
    out.append(("unary", "=-(A1^2)"))
    out.append(("unary", "=A1%%"))
    out.append(("unary", "=-A1%^2"))
    if tier == "thorough":
        for o1, o2, o3 in itertools.product(OPS, repeat=3):
            out.append(("three", f"=A1{o1}B1{o2}C1{o3}D1"))
        rnd = random.Random(seed)
        for _ in range(300):
            ops = [rnd.choice(OPS) for _ in range(4)]
            pre = [rnd.choice(("", "", "-")) for _ in range(5)]
            post = [rnd.choice(("", "", "%")) for _ in range(5)]
            out.append(("four", "=" + "".join(f"{pre[i]}{LEAVES[i]}{post[i]}{ops[i] if i < 4 else ''}" for i in range(5))))
    seen, res = set(), []
    for fam, t in out:
        if t not in seen:
            seen.add(t)
            res.append((fam, t))
    return res


def obligations(tier, seed=0):
    obs = []
    for fam, text in formulas(tier, seed):
        n = _nleaves(text)
        sig = ", ".join(f"{x}: int" for x in "abcde"[:n])
        obs.append(Obligation(PROP, f"herbrand[{text}]", __name__, "ob_herbrand", (text, n), timeout=30, float_mode="real",
                              sig=sig, group=fam))
        if _linear(text) and fam in ("two", "paren", "unary", "mixed") and "&" not in text:
            obs.append(Obligation(PROP, f"interp[{text}]", __name__, "ob_interp", (text, n), timeout=60, float_mode="real",
                                  sig=sig, group=fam))
    obs.append(Obligation(PROP, "text_literal", __name__, "ob_text_literal", (), timeout=300 if tier == "quick" else 1500,
                          float_mode="real", group="literal"))
    for ti in range(len(TEXT_POOL)):
        obs.append(Obligation(PROP, f"text_formula[{ti}]", __name__, "ob_text_formula", (ti,), timeout=60, float_mode="real",
                              group="literal"))
    for li in range(len(LITERALS)):
        obs.append(Obligation(PROP, f"literal[{LITERALS[li][0]}]", __name__, "ob_literal", (li,), timeout=60, float_mode="real",
                              group="literal"))
    return obs
