"""C19 Rounding family: decimal-exact, half away from zero, correct brackets.

Engine K (astz3): the real code objects of round_, _round, roundup, rounddown, trunc, int_, mod, ceiling, floor,
*_math, *_precise, even, odd run on x = k/10^j with k a symbolic integer.  Decimal paths are exact rationals
(z3 reals), float paths are binary64 (z3 FP, round-to-nearest-even) or, where stated, exact reals.
"""
import decimal
import math
from fractions import Fraction
from typing import Optional

import z3

import pycel.excellib as XL
from pycel.excelutil import DIV0, NUM_ERROR

from vf.kengine import numeric as KN
from vf.kengine import strings as KS
from vf.kengine.rat import SRat
from vf.kengine.sym import RNE, SBool, SFloat, SInt, SReal
from vf.obl import Obligation

PROP = "C19"
LEVEL = "model_checking"
ENCODES = ["pycel.excellib:round_", "pycel.excellib:_round", "pycel.excellib:roundup", "pycel.excellib:rounddown",
           "pycel.excellib:trunc", "pycel.excellib:int_", "pycel.excellib:mod", "pycel.excellib:ceiling", "pycel.excellib:floor",
           "pycel.excellib:ceiling_math", "pycel.excellib:floor_math", "pycel.excellib:ceiling_precise",
           "pycel.excellib:floor_precise", "pycel.excellib:even", "pycel.excellib:odd"]
BOUNDS = ["x = k/10^j, k symbolic integer |k| <= 10^6, j in 0..4 (quick 0..3) enumerated; digits d in -3..4 enumerated",
          "ROUND/ROUNDUP/ROUNDDOWN/TRUNC: exact decimal semantics (Decimal paths as rationals); TRUNC additionally in binary64",
          "INT, MOD, CEILING/FLOOR(.MATH/.PRECISE), EVEN, ODD: x = k/10^j and significance / divisor a symbolic integer 1..12 (either sign) "
          "or a decimal s/10, in exact real arithmetic (binary64 quotient artefacts such as FLOOR(0.3, 0.1) are outside this claim)"]
ASSUMPTIONS = ["shortest repr of the double nearest k/10^j (|k| <= 10^6, j <= 6) is that decimal",
               "a double converted from a short decimal is identified with the decimal (float(Decimal) exact)",
               "INT/MOD/CEILING/FLOOR/EVEN/ODD: floats as exact reals"]
EXTRA_MODELS = ["Decimal / quantize (ROUND_HALF_UP, ROUND_DOWN, ROUND_UP, ROUND_HALF_EVEN) as exact rationals", "repr of a decimal-born float",
                "builtin round = half to even on the exact value", "math.floor/ceil/trunc/copysign on reals", "binary64 via z3 FP (TRUNC)"]


def _patch():
    return KS.patched(XL, {"Decimal": KN.k_decimal, "repr": KN.k_repr, "float": KN.k_float, "round": KN.k_round,
                           "math": KN.KMath()})


def _x(E, j):
    """x = k/10^j as an exact rational (symbolic) / Fraction (concrete replay)"""
    k = E.int("k")
    E.assume((k >= -10 ** 6) & (k <= 10 ** 6))
    if E.concrete is not None:
        return k, Fraction(k, 10 ** j)
    return k, SRat(k.e, 10 ** j, E)


def _call(E, f, x, *a):
    """call the kernel; in a concrete replay the kernel gets the float and the result is read back as the exact
    decimal its double prints as"""
    if E.concrete is not None:
        r = f(float(x), *a)
        return Fraction(repr(float(r))) if isinstance(r, float) else (Fraction(r) if isinstance(r, int) and not isinstance(r, bool) else r)
    with _patch():
        return f(x, *a)


def _floor_mult(v, q, E):
    """largest multiple of the positive Fraction q that is <= v"""
    n = math.floor(v / q)
    if E.concrete is not None:
        return n * q
    return SRat(n.e, 1, E) * q


def _absv(v):
    return v if v >= 0 else -v


def kb_round(E, j, d):
    """ROUND(x, d) is the multiple of 10^-d nearest to the decimal x, ties away from zero (d of either sign)"""
    k, x = _x(E, j)
    q = Fraction(10) ** (-d)
    r = _call(E, XL.round_, x, d)
    a = _absv(x)
    lo = _floor_mult(a, q, E)
    up = lo + q
    exp_abs = up if (a - lo) * 2 >= q else lo
    exp = exp_abs if x >= 0 else -exp_abs
    return r == exp


def kb_updown(E, j, d):
    """ROUNDDOWN moves toward zero and ROUNDUP away from zero to a multiple of 10^-d, less than one quantum from x;
    both fix exact multiples"""
    k, x = _x(E, j)
    q = Fraction(10) ** (-d)
    dn, upv = _call(E, XL.rounddown, x, d), _call(E, XL.roundup, x, d)
    a = _absv(x)
    lo = _floor_mult(a, q, E)
    exp_dn = lo if x >= 0 else -lo
    exp_up_abs = lo if lo == a else lo + q
    exp_up = exp_up_abs if x >= 0 else -exp_up_abs
    return (dn == exp_dn) & (upv == exp_up)


def kb_trunc_real(E, j, d):
    """TRUNC(x, d) cuts toward zero at d digits (in exact arithmetic: equals ROUNDDOWN)"""
    k, x = _x(E, j)
    return _call(E, XL.trunc, x, d) == _call(E, XL.rounddown, x, d)


def kb_trunc_fp(E, j, d):
    """TRUNC(x, d) in binary64: x the double nearest k/10^j; the result must be the double nearest the decimal cut
    (k truncated toward zero to d digits)"""
    if E.concrete is not None:
        k = E.int("k")
        if not -10 ** 6 <= k <= 10 ** 6:
            return None
        x = k / 10 ** j
        m = int(Fraction(k, 10 ** j) * 10 ** d)          # toward zero
        return XL.trunc(x, d) == m / 10 ** d
    kb = z3.BitVec("k", 32)
    E.symbols["k"] = ("bv", kb)
    E.add(z3.And(kb >= -10 ** 6, kb <= 10 ** 6))
    f64 = z3.Float64()
    x = KN.DecFloat.__new__(KN.DecFloat)
    SFloat.__init__(x, z3.fpDiv(RNE, z3.fpSignedToFP(RNE, kb, f64), z3.FPVal(float(10 ** j), f64)), E)
    x.k, x.j = SInt(z3.BV2Int(kb, True), E), j           # the decimal it prints as (used only by repr())
    E.fp_int_as_float = True
    E.fresh_checks = True
    with _patch():
        t = XL.trunc(x, d)
    if isinstance(t, SRat):                              # decimal implementation: compare exactly
        ki = z3.BV2Int(kb, True)
        if d >= j:
            return t == SRat(ki, 10 ** j, E)
        p = 10 ** (j - d)
        cut = z3.If(ki >= 0, ki / p, -((-ki) / p))
        return t == SRat(cut, 10 ** d, E)
    if d > j:
        m = kb * (10 ** (d - j))
    else:
        m = z3.SRem(kb, 1) * 0 + (kb / (10 ** (j - d)) if False else _sdiv(kb, 10 ** (j - d)))
    exp = z3.fpDiv(RNE, z3.fpSignedToFP(RNE, m, f64), z3.FPVal(float(10 ** d), f64))
    return SBool(z3.fpEQ(t.e, exp), E)


def kb_updown_fp(E, j, d):
    """ROUNDDOWN / ROUNDUP / ROUND of the double nearest k/10^j fix the exact multiples of 10^-d (they see the shortest
    decimal rendering, not the binary expansion): k a multiple of 10^(j-d)"""
    if j < d:
        return None
    p = 10 ** (j - d)
    if E.concrete is not None:
        k = E.int("k")
        if not (-10 ** 6 <= k <= 10 ** 6) or k % p:
            return None
        x = k / 10 ** j
        return XL.rounddown(x, d) == x and XL.roundup(x, d) == x and XL.round_(x, d) == x
    kb = z3.BitVec("k", 32)
    E.symbols["k"] = ("bv", kb)
    E.add(z3.And(kb >= -10 ** 6, kb <= 10 ** 6, z3.SRem(kb, z3.BitVecVal(p, 32)) == 0))
    f64 = z3.Float64()
    x = KN.DecFloat.__new__(KN.DecFloat)
    SFloat.__init__(x, z3.fpDiv(RNE, z3.fpSignedToFP(RNE, kb, f64), z3.FPVal(float(10 ** j), f64)), E)
    x.k, x.j = SInt(z3.BV2Int(kb, True), E), j
    want = SRat(z3.BV2Int(kb, True), 10 ** j, E)
    with _patch():
        outs = (XL.rounddown(x, d), XL.roundup(x, d), XL.round_(x, d))
    ok = None
    for o in outs:
        if isinstance(o, SRat):
            c = (o == want)
        elif isinstance(o, SReal):
            c = SBool(o.e == z3.ToReal(want.num) / KN.rv(want.den), E)
        else:
            return False
        ok = c if ok is None else (ok & c)
    return ok


def _sdiv(bv, c):
    return bv / z3.BitVecVal(c, 32)         # signed division on bit-vectors truncates toward zero


SIGS = (1, 2, 3, 5, 10, -1, -2, -5, 7, 0, 0.5, 0.25, -0.5)


def kb_int_mod(E, j, si):
    """INT is floor; MOD(n, d) has the sign of d, |MOD| < |d| and n = d*INT(n/d) + MOD(n, d)"""
    k, x = _x(E, j)
    d = SIGS[si]
    i = _call(E, XL.int_, x)
    if not ((i <= x) & (x < i + 1)):
        return False
    m = _call(E, XL.mod, x, d)
    if d == 0:
        return isinstance(m, str) and m == DIV0
    if isinstance(m, str):
        return False
    q = _call(E, XL.int_, x / Fraction(d))
    ok_sign = (m == 0) | ((m > 0) if d > 0 else (m < 0))
    ok_mag = ((m < d) & (m > -d)) if d > 0 else ((m > d) & (m < -d))
    return ok_sign & ok_mag & (q * Fraction(d) + m == x)


def _is_mult(v, a, E):
    w = v / a
    if E.concrete is not None:
        return Fraction(w).denominator == 1
    return SRat.of(w, E).is_integer()


def kb_ceiling_floor(E, j, variant, si):
    """CEILING / FLOOR (and .MATH / .PRECISE) return the adjacent multiples of the significance bracketing x"""
    k, x = _x(E, j)
    s = SIGS[si]
    fs = {"plain": (XL.ceiling, XL.floor), "math": (XL.ceiling_math, XL.floor_math),
          "precise": (XL.ceiling_precise, XL.floor_precise)}[variant]
    c, f = _call(E, fs[0], x, s), _call(E, fs[1], x, s)
    if variant == "plain":
        if s < 0 and bool(x > 0):
            return isinstance(c, str) and c == NUM_ERROR and isinstance(f, str) and f == NUM_ERROR
        if x == 0:
            return (c == 0) & (f == 0)
        if s == 0:
            return (c == 0) & (isinstance(f, str) and f == DIV0)
        if isinstance(c, str) or isinstance(f, str):
            return False
    elif s == 0:
        return (c == 0) & (f == 0)
    a = Fraction(abs(s))
    if not (_is_mult(c, a, E) & _is_mult(f, a, E)):
        return False
    if variant == "plain" and s < 0:
        # x <= 0 here: with a negative significance CEILING moves away from zero, FLOOR toward zero
        return (c <= x) & (x - c < a) & (f >= x) & (f - x < a)
    return (c >= x) & (c - x < a) & (f <= x) & (x - f < a)


def kb_even_odd(E, j):
    """EVEN / ODD return the next even / odd integer away from zero"""
    k, x = _x(E, j)
    ev, od = _call(E, XL.even, x), _call(E, XL.odd, x)
    a, ea, oa = _absv(x), _absv(ev), _absv(od)
    if not (_is_mult(ea, Fraction(2), E) & _is_mult(oa - 1, Fraction(2), E)):
        return False
    sign_ok = (((ev >= 0) & (x >= 0)) | ((ev <= 0) & (x <= 0))) & (((od > 0) & (x >= 0)) | ((od < 0) & (x < 0)))
    return sign_ok & (ea >= a) & (ea - a < 2) & (oa >= a) & (oa - a < 2)


def prepare(tier, workdir):
    """translator validation: the patched kernels on concrete rows equal the unpatched functions"""
    rows = 0
    samples = [(2.5, 0), (0.125, 2), (-2.675, 2), (1234.5678, -2), (25, -1), (-0.5, 0), (5, -1), (0.29, 2), (1e6, 1), (3, 0)]
    for x, d in samples:
        base = (XL.round_(x, d), XL.rounddown(x, d), XL.roundup(x, d), XL.trunc(x, d), XL.int_(x), XL.even(x), XL.odd(x))
        with _patch():
            got = (XL.round_(x, d), XL.rounddown(x, d), XL.roundup(x, d), XL.trunc(x, d), XL.int_(x), XL.even(x), XL.odd(x))
        rows += 7
        assert base == got, (x, d, base, got)
    for x, s in ((7.3, 2), (-7.3, 2), (7.3, -2), (-7.3, -2), (0, 3), (6, 3), (2.5, 0.5)):
        base = (XL.ceiling_math(x, s), XL.floor_math(x, s), XL.ceiling_precise(x, s), XL.floor_precise(x, s), XL.mod(x, s))
        with _patch():
            got = (XL.ceiling_math(x, s), XL.floor_math(x, s), XL.ceiling_precise(x, s), XL.floor_precise(x, s), XL.mod(x, s))
        rows += 5
        assert base == got, (x, s, base, got)
    return {"validated_rows": rows}


def obligations(tier):
    obs = []

    def add(oid, func, params, timeout=200, known=None, group=""):
        obs.append(Obligation(PROP, oid, __name__, func, tuple(params), timeout=timeout, engine="K", known=known, group=group))
    js = (0, 1, 2, 3) if tier == "quick" else (0, 1, 2, 3, 4, 5, 6)
    ds = (-2, -1, 0, 1, 2) if tier == "quick" else (-6, -3, -2, -1, 0, 1, 2, 3, 4, 6)
    for j in js:
        for d in ds:
            add(f"round[j={j},d={d}]", "kb_round", (j, d), group="round")
            add(f"updown[j={j},d={d}]", "kb_updown", (j, d), group="round")
            add(f"trunc_exact[j={j},d={d}]", "kb_trunc_real", (j, d), group="trunc")
            if 0 <= d <= 3 and j <= 3 and (tier == "thorough" or (j, d) in ((2, 2), (1, 1), (2, 1), (3, 2))):
                add(f"trunc_binary64[j={j},d={d}]", "kb_trunc_fp", (j, d), 600, group="trunc")
            if 1 <= d == j <= 3:
                add(f"updown_binary64[j={j},d={d}]", "kb_updown_fp", (j, d), 600, group="round")
        for si in range(len(SIGS)):
            if tier == "quick" and (j + si) % 3:
                continue
            add(f"int_mod[j={j},d={SIGS[si]}]", "kb_int_mod", (j, si), 200, group="intmod")
            for v in ("plain", "math", "precise"):
                add(f"ceiling_floor[{v},j={j},s={SIGS[si]}]", "kb_ceiling_floor", (j, v, si), 200, group="ceilfloor")
        add(f"even_odd[j={j}]", "kb_even_odd", (j,), 200, group="evenodd")
    # more decimal places than a fixed-point rendering keeps by default (six)
    for j in ((7,) if tier == "quick" else (7, 8)):
        for d in ((0, 2) if tier == "quick" else (0, 2, 6, 7)):
            add(f"round[j={j},d={d}]", "kb_round", (j, d), group="round")
            add(f"updown[j={j},d={d}]", "kb_updown", (j, d), group="round")
            add(f"trunc_exact[j={j},d={d}]", "kb_trunc_real", (j, d), group="trunc")
    return obs
