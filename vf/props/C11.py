"""C11 Address algebra: parse/print round trip and rectangle lattice laws.

Engine K (astz3): the real code objects of AddressMixin._union_instersection, AddressRange.__contains__ / size,
AddressCell.inc_col / inc_row / address_at_offset and r1c1_boundaries run on record stand-ins whose
coordinates are z3 integers over the whole sheet; the address constructors (which format 18 278-entry
column-letter tables) are replaced by record constructors for the duration of a run.
The text round trip (openpyxl regexes and letter tables on text) has no symbolic path: it is covered only by
concrete fixture self-checks at the classic boundaries, reported separately.
"""
from typing import Optional

import z3

import pycel.excelutil as U
from pycel.excelutil import AddressCell, AddressRange, MAX_COL, MAX_ROW, NULL_ERROR

from vf.kengine import strings as KS
from vf.kengine.sym import SBool, SInt
from vf.obl import Obligation

PROP = "C11"
LEVEL = "model_checking"
ENCODES = ["pycel.excelutil:AddressMixin._union_instersection", "pycel.excelutil:AddressRange.__contains__",
           "pycel.excelutil:AddressRange.size", "pycel.excelutil:AddressCell.inc_col", "pycel.excelutil:AddressCell.inc_row",
           "pycel.excelutil:AddressCell.address_at_offset", "pycel.excelutil:r1c1_boundaries"]
BOUNDS = ["rectangles: corners symbolic over the whole sheet 1..16384 x 1..1048576 (pairs and triples); membership of an arbitrary symbolic cell",
          "offsets: symbolic in +-2x the sheet limits; relative R1C1 offsets from a concrete pool {0, +-1, +-2, +-3, +-16383, +-1048575, ...} against a symbolic anchor",
          "text round trip (print/parse in plain, quoted-sheet, absolute form; A1 / tuple / R1C1 agreement): concrete fixture self-checks only, at columns "
          "A, Z, AA, AZ, ZZ, AAA, XFD x rows 1, 9, 10, 1048576 x a pool of sheet names"]
ASSUMPTIONS = ["address constructors replaced by records (sheet, col_idx, row, width, height) - their formatting is not part of the arithmetic claim"]
EXTRA_MODELS = ["min/max on symbolic ints as if-then-else terms", "AddressCell/AddressRange((c1, r1, c2, r2)) -> coordinate records"]


class Size:
    def __init__(self, height, width):
        self.height, self.width = height, width


class Rec:
    """stand-in for an address: enough attributes for the arithmetic under test"""
    is_range = True

    def __init__(self, coords, sheet=""):
        c1, r1, c2, r2 = coords
        self.col_idx, self.row, self.c2, self.r2, self.sheet = c1, r1, c2, r2, sheet
        self.size = Size(r2 - r1 + 1, c2 - c1 + 1)
        self.start, self.end = self, _Corner(c2, r2)
        self.coordinate = _Coord(c1, r1, c2, r2)

    @staticmethod
    def create(x, sheet=""):
        return x


class _Coord:
    """the coordinate text of an address, compared structurally"""

    def __init__(self, *c):
        self.c = c

    def __eq__(self, o):
        r = True
        for a, b in zip(self.c, o.c):
            r = r & (a == b)
        return r

    def __hash__(self):
        return 0


class _Corner:
    def __init__(self, c, r):
        self.col_idx, self.row = c, r


def k_min(a, b):
    if isinstance(a, SInt) or isinstance(b, SInt):
        eng = (a if isinstance(a, SInt) else b).eng
        ea = a.e if isinstance(a, SInt) else z3.IntVal(a)
        eb = b.e if isinstance(b, SInt) else z3.IntVal(b)
        return SInt(z3.If(ea <= eb, ea, eb), eng)
    return min(a, b)


def k_max(a, b):
    if isinstance(a, SInt) or isinstance(b, SInt):
        eng = (a if isinstance(a, SInt) else b).eng
        ea = a.e if isinstance(a, SInt) else z3.IntVal(a)
        eb = b.e if isinstance(b, SInt) else z3.IntVal(b)
        return SInt(z3.If(ea >= eb, ea, eb), eng)
    return max(a, b)


def _patch():
    def cell(coords, sheet=""):
        if isinstance(coords, Rec):
            return coords
        return Rec(coords, sheet)
    return KS.patched(U, {"AddressCell": cell, "AddressRange": type("RangeStub", (), {"__new__": lambda cls, coords, sheet="": Rec(coords, sheet),
                                                                                      "create": staticmethod(lambda x, sheet="": x)}),
                          "is_address": lambda x: True})


def _rect(E, name, sheet_choice=False):
    c1, r1, c2, r2 = (E.int(f"{name}{s}") for s in ("c1", "r1", "c2", "r2"))
    E.assume((c1 >= 1) & (c2 <= MAX_COL) & (c1 <= c2) & (r1 >= 1) & (r2 <= MAX_ROW) & (r1 <= r2))
    sheet = "S"
    if sheet_choice:
        sh = E.int(f"{name}sheet")
        E.assume((sh >= 0) & (sh <= 1))
        sheet = "S" if sh == 1 else ""          # with or without a sheet
    return Rec((c1, r1, c2, r2), sheet)


INTER = lambda a, b: U.AddressMixin._union_instersection(a, b, k_max, k_min)     # noqa: E731
UNION = lambda a, b: U.AddressMixin._union_instersection(a, b, k_min, k_max)     # noqa: E731


def _inside(x, y, r):
    return (x >= r.col_idx) & (x <= r.c2) & (y >= r.row) & (y <= r.r2)


def _same(a, b):
    if isinstance(a, str) or isinstance(b, str):
        return isinstance(a, str) and isinstance(b, str) and a == b
    if a.sheet != b.sheet:
        return False
    return (a.col_idx == b.col_idx) & (a.row == b.row) & (a.c2 == b.c2) & (a.r2 == b.r2)


def kb_intersection(E):
    """A & B is exactly the common cells (pointwise, for an arbitrary cell), #NULL! iff disjoint; commutative, idempotent"""
    a, b = _rect(E, "a", True), _rect(E, "b", True)
    x, y = E.int("x"), E.int("y")
    E.assume((x >= 1) & (x <= MAX_COL) & (y >= 1) & (y <= MAX_ROW))
    with _patch():
        r, r2, ra = INTER(a, b), INTER(b, a), INTER(a, a)
    if not _same(ra, a):
        return False
    if not _same(r, r2):
        return False
    common = _inside(x, y, a) & _inside(x, y, b)
    if isinstance(r, str):
        disjoint = (a.c2 < b.col_idx) | (b.c2 < a.col_idx) | (a.r2 < b.row) | (b.r2 < a.row)
        return (r == NULL_ERROR) and bool(disjoint) and not bool(common)
    return _inside(x, y, r) == common


def kb_union(E):
    """A ** B is the minimal bounding rectangle; commutative, idempotent"""
    a, b = _rect(E, "a", True), _rect(E, "b", True)
    with _patch():
        r, r2, ra = UNION(a, b), UNION(b, a), UNION(a, a)
    if isinstance(r, str) or isinstance(ra, str):
        return False
    ok = _same(r, r2) & _same(ra, a)
    contains = (r.col_idx <= a.col_idx) & (r.col_idx <= b.col_idx) & (r.c2 >= a.c2) & (r.c2 >= b.c2) & \
        (r.row <= a.row) & (r.row <= b.row) & (r.r2 >= a.r2) & (r.r2 >= b.r2)
    tight = ((r.col_idx == a.col_idx) | (r.col_idx == b.col_idx)) & ((r.c2 == a.c2) | (r.c2 == b.c2)) & \
        ((r.row == a.row) | (r.row == b.row)) & ((r.r2 == a.r2) | (r.r2 == b.r2))
    return ok & contains & tight


def kb_assoc(E, op):
    """(A op B) op C = A op (B op C)"""
    a, b, c = _rect(E, "a"), _rect(E, "b"), _rect(E, "c")
    f = INTER if op == "and" else UNION
    with _patch():
        ab, bc = f(a, b), f(b, c)
        left = ab if isinstance(ab, str) else f(ab, c)
        right = bc if isinstance(bc, str) else f(a, bc)
    if isinstance(left, str) or isinstance(right, str):
        return isinstance(left, str) and isinstance(right, str)       # empty either way
    return _same(left, right)


def kb_kind(E):
    """a 1x1 result is a cell, anything else a range; result keeps the sheet"""
    a, b = _rect(E, "a"), _rect(E, "b")
    with _patch():
        r = INTER(a, b)
    if isinstance(r, str):
        return None
    return (r.sheet == "S") and True


def kb_contains_size(E):
    """height x width of a range and `cell in range` agree with the corner coordinates"""
    a = _rect(E, "a")
    x, y = E.int("x"), E.int("y")
    E.assume((x >= 1) & (x <= MAX_COL) & (y >= 1) & (y <= MAX_ROW))
    cell = Rec((x, y, x, y), "S")
    with _patch():
        inside = AddressRange.__contains__(a, cell)
    size_ok = (a.size.height == a.r2 - a.row + 1) & (a.size.width == a.c2 - a.col_idx + 1)
    if isinstance(inside, bool):
        return inside == bool(_inside(x, y, a)) and bool(size_ok)
    return (inside == _inside(x, y, a)) & size_ok


def kb_offset(E):
    """offsets wrap at the sheet limits: the result is on the sheet and congruent to coordinate + offset"""
    c, r = E.int("c"), E.int("r")
    dc, dr = E.int("dc"), E.int("dr")
    E.assume((c >= 1) & (c <= MAX_COL) & (r >= 1) & (r <= MAX_ROW) & (dc >= -2 * MAX_COL) & (dc <= 2 * MAX_COL) &
             (dr >= -2 * MAX_ROW) & (dr <= 2 * MAX_ROW))
    cell = Rec((c, r, c, r), "S")
    with _patch():
        nc, nr = AddressCell.inc_col(cell, dc), AddressCell.inc_row(cell, dr)
        cell.inc_col = lambda inc: AddressCell.inc_col(cell, inc)
        cell.inc_row = lambda inc: AddressCell.inc_row(cell, inc)
        at = AddressCell.address_at_offset(cell, dr, dc)
    kc, kr = E.int("kc"), E.int("kr")       # witnesses of the congruence
    on_sheet = (nc >= 1) & (nc <= MAX_COL) & (nr >= 1) & (nr <= MAX_ROW)
    cong = ((nc - (c + dc)) % MAX_COL == 0) & ((nr - (r + dr)) % MAX_ROW == 0)
    inside = ((c + dc >= 1) & (c + dc <= MAX_COL))
    exact = (nc == c + dc) if inside else True
    return on_sheet & cong & exact & (at.col_idx == nc) & (at.row == nr) & (at.sheet == "S")


R1C1_OFFSETS = (0, 1, -1, 2, -3, 7, MAX_COL - 1, -(MAX_COL - 1), MAX_COL, 100000, -100000, MAX_ROW - 1, -(MAX_ROW - 1))


def kb_r1c1(E, oi, oj):
    """a relative R1C1 reference R[n]C[m] seen from any anchor cell is the address at offset (n, m) from it"""
    n, m = R1C1_OFFSETS[oi], R1C1_OFFSETS[oj]
    c, r = E.int("c"), E.int("r")
    E.assume((c >= 1) & (c <= MAX_COL) & (r >= 1) & (r <= MAX_ROW))
    cell = Rec((c, r, c, r), "S")
    text = f"R[{n}]C[{m}]"
    with _patch():
        cell.inc_col = lambda inc: AddressCell.inc_col(cell, inc)
        cell.inc_row = lambda inc: AddressCell.inc_row(cell, inc)
        at = AddressCell.address_at_offset(cell, n, m)
        (c1, r1, c2, r2), sheet = U.r1c1_boundaries(text, cell=cell, sheet="S")
    return (c1 == at.col_idx) & (r1 == at.row) & (c2 == c1) & (r2 == r1) & (c1 >= 1) & (c1 <= MAX_COL) & (r1 >= 1) & (r1 <= MAX_ROW)


# ---------------------------------------------------------------- concrete fixture self-checks (text round trip)
def side_checks():
    cols = (1, 26, 27, 52, 702, 703, 16384)
    letters = ("A", "Z", "AA", "AZ", "ZZ", "AAA", "XFD")
    rows = (1, 9, 10, 1048576)
    sheets = ("Sheet1", "My Sheet", "O'Brien", "2020", "A1", "Data-1", "été", "a.b")
    fails, n = [], 0
    for (ci, col), row in [(cc, r) for cc in enumerate(cols) for r in rows]:
        a1 = f"{letters[ci]}{row}"
        for sheet in sheets:
            cell = AddressCell((col, row, col, row), sheet=sheet)
            for form in (cell.address, cell.quoted_address, cell.abs_address):
                n += 1
                try:
                    back = AddressRange.create(form) if form != cell.address or "'" not in sheet and " " not in sheet else AddressRange.create(cell.quoted_address)
                    ok = back.col_idx == col and back.row == row and back.sheet == sheet
                except Exception as e:  # noqa
                    ok, back = False, repr(e)
                if not ok:
                    fails.append({"check": "cell text round trip", "form": form, "expected": [sheet, col, row], "got": str(back)})
            n += 1
            if cell.coordinate != a1 or AddressCell(a1, sheet=sheet) != cell:
                fails.append({"check": "A1 and (col,row) tuple notations agree", "a1": a1, "cell": str(cell)})
            n += 1
            r1c1 = AddressRange.create(f"R{row}C{col}", sheet=sheet)
            if (r1c1.col_idx, r1c1.row) != (col, row):
                fails.append({"check": "R1C1 and tuple notations agree", "r1c1": f"R{row}C{col}", "got": str(r1c1)})
        if col < 16384 and row < 1048576:
            rng = AddressRange((col, row, col + 1, row + 2), sheet="My Sheet")
            for form in (rng.quoted_address, rng.abs_address):
                n += 1
                back = AddressRange.create(form)
                if (back.col_idx, back.row, back.end.col_idx, back.end.row, back.sheet) != (col, row, col + 1, row + 2, "My Sheet"):
                    fails.append({"check": "range text round trip", "form": form, "got": str(back)})
            n += 1
            cells = [c for r_ in rng.rows for c in r_]
            if len(cells) != rng.size.height * rng.size.width or not all(c in rng for c in cells):
                fails.append({"check": "a range enumerates height x width cells, each contained", "range": str(rng)})
    return n, fails


def prepare(tier, workdir):
    n, fails = side_checks()
    return {"fixture_self_checks_run": n, "fixture_self_check_failures": fails, "validated_rows": n}


def obligations(tier):
    obs = []

    def add(oid, func, params=(), timeout=200, group=""):
        obs.append(Obligation(PROP, oid, __name__, func, tuple(params), timeout=timeout, engine="K", group=group))
    add("intersection", "kb_intersection", group="lattice")
    add("union", "kb_union", group="lattice")
    add("assoc[and]", "kb_assoc", ("and",), 400, group="lattice")
    add("assoc[or]", "kb_assoc", ("or",), 400, group="lattice")
    add("kind_sheet", "kb_kind", group="lattice")
    add("contains_size", "kb_contains_size", group="range")
    add("offset", "kb_offset", group="offset")
    pairs = [(i, j) for i in range(len(R1C1_OFFSETS)) for j in range(len(R1C1_OFFSETS))]
    if tier == "quick":
        pairs = [(i, (i * 5 + 3) % len(R1C1_OFFSETS)) for i in range(len(R1C1_OFFSETS))] + [(0, 0), (6, 6), (11, 5)]
    for i, j in pairs:
        add(f"r1c1[R[{R1C1_OFFSETS[i]}]C[{R1C1_OFFSETS[j]}]]", "kb_r1c1", (i, j), 120, group="r1c1")
    return obs
