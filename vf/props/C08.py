"""C08 trim_graph preserves the outputs as a function of the inputs.

Engine X: trim_graph runs concretely for every enumerated (template, inputs, outputs) choice, directly
and after a to_file/from_file round trip (files are produced before the analysis starts); then the real
set_value/evaluate of the trimmed model run on two successive symbolic assignments of the inputs and
every output is compared with the untrimmed full recompute.
"""
import os
from typing import Optional

from pycel.excelcompiler import ExcelCompiler

from vf import wb
from vf.obl import Obligation
from vf.props.C01 import _eq, value_of

PROP = "C08"
LEVEL = "model_checking"
ENCODES = ["pycel.excelcompiler:ExcelCompiler.trim_graph", "pycel.excelcompiler:ExcelCompiler.set_value",
           "pycel.excelcompiler:ExcelCompiler._reset", "pycel.excelcompiler:ExcelCompiler._evaluate",
           "pycel.excelcompiler:ExcelCompiler._evaluate_range", "pycel.excelcompiler:ExcelCompiler._to_text",
           "pycel.excelcompiler:ExcelCompiler._from_text", "pycel.excelcompiler:_CompiledImporter.get_range"]
BOUNDS = ["templates chain, diamond, sumrange, rangeform, nested, trimchain (two outputs feeding one another through a plain cell), "
          "buried (an input that is itself a formula of another input)",
          "input sets: each leaf constant, all leaf constants, a buried formula cell, a range; output sets: one cell, two cells, a range, "
          "output = input (enumerated per template)",
          "direct use and yml / pkl round trip of the trimmed model (json in the thorough tier)",
          "a first assignment of every input cell and a second one of the first input cell (both cells on the buried/trimchain templates): class {number, logical, blank} with symbolic int |v|<=99"]
ASSUMPTIONS = ["floats as exact reals", "trim_graph itself runs on concrete data (the template); the solver quantifies over the input values"]

wb.TEMPLATES.setdefault("trimchain", {"A1": 1, "A2": 2, "B1": "=A1+1", "C1": "=B1*10", "D1": "=C1+5", "E1": "=A2*3", "F1": "=D1+E1"})
wb.TEMPLATES.setdefault("buried", {"A1": 2, "A2": 7, "B1": "=A1*10", "C1": "=B1+A1", "D1": "=C1+A2"})
# the buried input B1 has a precedent of its own (A3) that nothing else needs
wb.TEMPLATES.setdefault("buried2", {"A1": 2, "A2": 7, "A3": 5, "B1": "=A3*10", "C1": "=B1+A1", "D1": "=C1+A2"})

# (template, inputs, outputs)
CASES = (
    ("chain", ("A1",), ("D1",)), ("chain", ("A1", "A2"), ("B1", "C1")), ("chain", ("B1",), ("D1",)),
    ("chain", ("A2",), ("B1:D1",)), ("chain", ("A1",), ("A1", "C1")),
    ("diamond", ("A1",), ("C1",)), ("diamond", ("B1",), ("C1", "D1")),
    ("sumrange", ("A1",), ("C1",)), ("sumrange", ("A1:A3",), ("B1", "D1")), ("sumrange", ("A2", "A3"), ("C1",)),
    ("rangeform", ("A1",), ("B1", "C1")), ("rangeform", ("A2",), ("B1",)),
    ("nested", ("A1", "A4"), ("C1",)), ("nested", ("A3",), ("B2", "C1")),
    ("trimchain", ("A1",), ("B1", "D1")), ("trimchain", ("A1", "A2"), ("B1", "F1")), ("trimchain", ("A2",), ("F1",)),
    ("buried", ("A1", "B1"), ("C1", "D1")), ("buried", ("A1",), ("D1",)), ("buried", ("B1", "A2"), ("D1",)),
    ("buried2", ("A1", "B1"), ("C1", "D1")), ("buried2", ("B1",), ("B1", "D1")),
)
_FILES = {}


def _trimmed(ci):
    t, ins, outs = CASES[ci]
    m = wb.build_nodata(t)
    for a in wb.all_cells(t):
        m.evaluate(a)
    m.trim_graph([wb.addr(i) for i in ins], [wb.addr(o) for o in outs])
    return m


def prepare(tier, workdir):
    os.environ["VF_FILES_DIR"] = workdir
    n = 0
    for ci in range(len(CASES)):
        m = _trimmed(ci)
        for kind in ("yml", "pkl", "json"):
            m.to_file(os.path.join(workdir, f"trim{ci}_{kind}_file.{kind}"))
            n += 1
    return {"trimmed_models_saved": n}


def _model(ci, kind):
    with wb.notrace():
        if kind == "direct":
            return _trimmed(ci)
        return ExcelCompiler.from_file(os.path.join(os.environ["VF_FILES_DIR"], f"trim{ci}_{kind}_file.{kind}"))


def _cells_of(t, spec):
    """addresses denoted by an input/output spec (cell or range)"""
    if ":" in spec:
        from pycel.excelutil import AddressRange
        return [c.address for row in AddressRange(wb.addr(spec)).rows for c in row]
    return [wb.addr(spec)]


def ob_trim(ci, kind, before=False, k0: int = 0, v0: int = 0, k1: int = 0, v1: int = 0, k2: int = 0, v2: int = 0,
            l0: int = 0, w0: int = 0, l1: int = 0, w1: int = 0, l2: int = 0, w2: int = 0) -> Optional[bool]:
    """after trim_graph(inputs, outputs) (directly / after save+load) every output equals the untrimmed full recompute
    under a first and then a second assignment of the inputs"""
    t, ins, outs = CASES[ci]
    in_cells = [a for spec in ins for a in _cells_of(t, spec)]
    ks, vs = (k0, k1, k2), (v0, v1, v2)
    ls, ws = (l0, l1, l2), (w0, w1, w2)
    n = len(in_cells)
    for i in range(n):
        if not (0 <= ks[i] <= 2 and -99 <= vs[i] <= 99 and 0 <= ls[i] <= 2 and -99 <= ws[i] <= 99):
            return None
    m = _model(ci, kind)
    out_cells = [a for spec in outs for a in _cells_of(t, spec)]
    current = {}
    if before:
        # before any assignment the trimmed (and reloaded) model already returns what the untrimmed one does
        exp = wb.oracle(t, current)
        for a in out_cells:
            if not _eq(m.evaluate(a), exp[a]):
                return False
        return True
    for rnd, (kk, vv) in enumerate(((ks, vs), (ls, ws))):
        for i, a in enumerate(in_cells):
            if rnd == 1 and i >= (2 if len(in_cells) == 2 and t in ("buried", "buried2", "trimchain") else 1):
                continue        # second assignment: the first input cell only (both on the two-input chain templates)
            val = value_of(kk[i], vv[i])
            m.set_value(a, val)
            current[a] = val
        exp = wb.oracle(t, current)
        for a in out_cells:
            if not _eq(m.evaluate(a), exp[a]):
                return False
        for spec in outs:
            if ":" in spec:
                got = m.evaluate(wb.addr(spec))
                flat = [x for row in got for x in row] if isinstance(got[0], tuple) else list(got)
                for a, x in zip(_cells_of(t, spec), flat):
                    if not _eq(x, exp[a]):
                        return False
    return True


def obligations(tier):
    obs = []
    kinds = ("direct", "yml", "pkl") if tier == "quick" else ("direct", "yml", "pkl", "json")
    for ci, (t, ins, outs) in enumerate(CASES):
        n = sum(len(_cells_of(t, s)) for s in ins)
        sig = ", ".join([f"k{i}: int, v{i}: int" for i in range(n)] + [f"l{i}: int, w{i}: int" for i in range(2 if (n == 2 and t in ("buried", "buried2", "trimchain")) else 1)])
        for kind in kinds:
            if tier == "quick" and kind != "direct" and t not in ("trimchain", "buried", "buried2", "sumrange"):
                continue
            if tier == "quick" and kind == "pkl" and t not in ("buried", "buried2"):
                continue
            if tier == "quick" and t == "trimchain" and len(ins) == 2 and kind != "yml":
                continue
            if tier == "quick" and ins == ("A1:A3",) and kind != "direct":
                continue
            if tier == "quick" and (t, ins) == ("chain", ("A1", "A2")):
                continue
            obs.append(Obligation(PROP, f"trim[{t}:{'+'.join(ins)}->{'+'.join(outs)},{kind}]", __name__, "ob_trim", (ci, kind, False),
                                  timeout=300 if tier == "quick" else 1500, float_mode="real", sig=sig, group=t))
    for ci, (t, ins, outs) in enumerate(CASES):
        for kind in kinds:
            # no assignment at all: nothing symbolic, one concrete path through the real evaluate per case
            obs.append(Obligation(PROP, f"untouched[{t}:{'+'.join(ins)}->{'+'.join(outs)},{kind}]", __name__, "ob_trim",
                                  (ci, kind, True), timeout=120, float_mode="real", sig="k0: int", group=t))
    return obs
