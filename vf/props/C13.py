"""C13 Array (CSE) formulas: pointwise lifting and exact target shape.

Engine X on the real array_fixup (numpy object-array broadcasting inside fixup), cse_array_wrapper on
wrapped library functions, _ArrayFormulaContext.fit_to_range, and end-to-end CSE templates
(ArrayFormula -> load_array_formulas -> CSE_INDEX members -> range formula).  Shapes are enumerated,
elements are symbolic.
"""
from typing import Optional

from pycel.excelcompiler import ExcelCompiler
from pycel.excelutil import AddressRange, NA_ERROR, build_operator_operand_fixup, in_array_formula_context
from pycel.lib import text as T
from pycel import excellib as X
from pycel.lib.function_helpers import apply_meta

from vf import wb
from vf.dom import same
from vf.obl import Obligation
from vf.props.C01 import _eq

PROP = "C13"
LEVEL = "model_checking"
ENCODES = ["pycel.excelutil:build_operator_operand_fixup", "pycel.lib.function_helpers:cse_array_wrapper",
           "pycel.excelutil:_ArrayFormulaContext.fit_to_range", "pycel.excelwrapper:ExcelOpxWrapper.load_array_formulas",
           "pycel.excelwrapper:_OpxRange", "pycel.excelcompiler:ExcelCompiler._evaluate_range", "pycel.lib.lookup:index"]
BOUNDS = ["operator lifting: operand shape pairs scalar / 1xn / nx1 / nxm up to 3x3 (quick: up to 2x3), operators + < & * ; "
          "elements: solver-chosen class {number, logical, blank, text 'x', error #DIV/0!} with int |v|<=9 (more than 4 elements: numbers and text only)",
          "function lifting: LEFT(text array, n), LEN(array), SIGN(array) on 1x2, 2x1, 2x2 arrays",
          "fit_to_range: every result shape x target shape up to 3x3 (quick) / 4x4 (thorough), elements symbolic ints",
          "end-to-end CSE: 5 templates (same shape, result larger, scalar, single row, single column incl. #N/A fill); A1, B1 symbolic {number, logical, blank}, A2, A3 symbolic numbers"]
ASSUMPTIONS = ["floats as exact reals", "numpy object arrays keep their (symbolic) elements; numpy's C broadcasting of shapes is concrete"]

FIXUP = build_operator_operand_fixup(lambda *a: None)
LEFT, LEN, SIGN = apply_meta(T.left, name_space={})[0], apply_meta(T.len_, name_space={})[0], apply_meta(X.sign, name_space={})[0]


def _cell(k, v):
    if k == 0:
        return v
    if k == 1:
        return v > 0
    if k == 2:
        return None
    if k == 3:
        return "x"
    return "#DIV/0!"


def _mat(shape, ks, vs, off):
    if shape == (0, 0):
        return _cell(ks[off], vs[off]), off + 1
    r, c = shape
    rows = []
    for i in range(r):
        rows.append(tuple(_cell(ks[off + i * c + j], vs[off + i * c + j]) for j in range(c)))
    return tuple(rows), off + r * c


def _at(m, shape, i, j):
    if shape == (0, 0):
        return m
    r, c = shape
    return m[i if r > 1 else 0][j if c > 1 else 0]


K12 = ", ".join(f"k{i}: int = 2" for i in range(12)) + ", " + ", ".join(f"v{i}: int = 0" for i in range(12))


def ob_lift(op, sa, sb, k0: int = 2, k1: int = 2, k2: int = 2, k3: int = 2, k4: int = 2, k5: int = 2, k6: int = 2, k7: int = 2,
            k8: int = 2, k9: int = 2, k10: int = 2, k11: int = 2, v0: int = 0, v1: int = 0, v2: int = 0, v3: int = 0, v4: int = 0,
            v5: int = 0, v6: int = 0, v7: int = 0, v8: int = 0, v9: int = 0, v10: int = 0, v11: int = 0) -> Optional[bool]:
    """op applied to arrays (scalar / single row / single column broadcasting) gives at every position the scalar
    application to the elements at that position, in the broadcast shape"""
    ks = (k0, k1, k2, k3, k4, k5, k6, k7, k8, k9, k10, k11)
    vs = (v0, v1, v2, v3, v4, v5, v6, v7, v8, v9, v10, v11)
    n = (sa[0] * sa[1] or 1) + (sb[0] * sb[1] or 1)
    for i in range(n):
        if not (0 <= ks[i] <= 4 and -9 <= vs[i] <= 9):
            return None
        if n > 4 and ks[i] not in (0, 3):
            return None         # larger shapes: numbers and text only (mixed-type arrays)
    a, off = _mat(sa, ks, vs, 0)
    b, off = _mat(sb, ks, vs, off)
    res = FIXUP(a, op, b)
    R = max(sa[0], sb[0], 1)
    C = max(sa[1], sb[1], 1)
    scalar = not isinstance(res, tuple)     # a scalar (error operand short-circuit) is repeated over the target by fit_to_range
    if not scalar and len(res) != R:
        return False
    for i in range(R):
        if not scalar and len(res[i]) != C:
            return False
        for j in range(C):
            exp = FIXUP(_at(a, sa, i, j), op, _at(b, sb, i, j))
            got = res if scalar else res[i][j]
            if not (same(got, exp) or (isinstance(exp, float) and got == exp)):
                return False
    return True


CONCRETE_ARRAYS = (((True, 2),), ((1, "a"),), ((1.5, 0),), ((None, "7"), (False, 3)), ((2.5,), (True,)))


def ob_lift_concrete(op, ai, k: int, v: int) -> Optional[bool]:
    """a concrete mixed-type array (logicals next to numbers, numbers next to text, floats next to ints) against a symbolic
    scalar: every element keeps its own type in the scalar application (no array-wide coercion)"""
    if not (0 <= k <= 4 and -9 <= v <= 9):
        return None
    arr = CONCRETE_ARRAYS[ai]
    b = _cell(k, v)
    for res, swap in ((FIXUP(arr, op, b), False), (FIXUP(b, op, arr), True)):
        if not isinstance(res, tuple):
            if not (isinstance(b, str) and b[:1] == "#"):
                return False
            continue
        for i, row in enumerate(arr):
            for j, x in enumerate(row):
                exp = FIXUP(b, op, x) if swap else FIXUP(x, op, b)
                got = res[i][j]
                if not (same(got, exp) or (isinstance(exp, float) and not isinstance(got, (str, bool)) and got == exp)):
                    return False
    return True


def ob_lift_func(fi, shape, k0: int = 2, k1: int = 2, k2: int = 2, k3: int = 2, v0: int = 0, v1: int = 0, v2: int = 0,
                 v3: int = 0, n: int = 1) -> Optional[bool]:
    """an array-aware function applied to an array (and scalars) gives at every position its scalar application"""
    ks, vs = (k0, k1, k2, k3), (v0, v1, v2, v3)
    cnt = shape[0] * shape[1]
    for i in range(cnt):
        if not (0 <= ks[i] <= 4 and -99 <= vs[i] <= 99):
            return None
    if not 0 <= n <= 3:
        return None
    arr, _ = _mat(shape, ks, vs, 0)
    if fi == 0:
        f = lambda x: LEFT(x, n)          # noqa
        res = LEFT(arr, n)
    elif fi == 1:
        f = LEN
        res = LEN(arr)
    else:
        f = SIGN
        res = SIGN(arr)
    if not (isinstance(res, tuple) and len(res) == shape[0]):
        return False
    for i in range(shape[0]):
        if len(res[i]) != shape[1]:
            return False
        for j in range(shape[1]):
            if not same(res[i][j], f(arr[i][j])):
                return False
    return True


def ob_fit(rs, ts, e0: int, e1: int, e2: int, e3: int) -> Optional[bool]:
    """fit_to_range gives exactly the target shape: larger results trimmed, a scalar / single row / single column
    repeated, uncovered positions #N/A, covered positions unchanged"""
    marks = (e0, e1, e2, e3)
    rh, rw = rs
    th, tw = ts
    if rs == (0, 0):
        result = e0
        rh = rw = 1
        src = ((e0,),)
    else:
        src = tuple(tuple(marks[(i * rw + j) % 4] + 100 * (i * rw + j) for j in range(rw)) for i in range(rh))
        result = src
    addr = AddressRange((1, 1, tw, th), sheet="S")
    with in_array_formula_context(addr):
        out = in_array_formula_context.fit_to_range(result)
    if not (isinstance(out, tuple) and len(out) == th):
        return False
    for i in range(th):
        if not (isinstance(out[i], tuple) and len(out[i]) == tw):
            return False
        for j in range(tw):
            si = i if rh > 1 else 0
            sj = j if rw > 1 else 0
            if (rh > 1 and i >= rh) or (rw > 1 and j >= rw):
                exp = NA_ERROR
            else:
                exp = src[si][sj]
            if not same(out[i][j], exp):
                return False
    return True


# ------------------------------------------------------------------ end-to-end CSE templates
wb.TEMPLATES.setdefault("cse_same", {"A1": 1, "A2": 2, "A3": 3, "B1": 4, "C1": ("cse", "C1:C3", "=A1:A3*B1+1")})
wb.TEMPLATES.setdefault("cse_trim", {"A1": 1, "A2": 2, "A3": 3, "B1": 4, "C1": ("cse", "C1:C2", "=A1:A3*B1")})
wb.TEMPLATES.setdefault("cse_scalar", {"A1": 1, "A2": 2, "A3": 3, "B1": 4, "C1": ("cse", "C1:D2", "=A1+B1")})
wb.TEMPLATES.setdefault("cse_row", {"A1": 1, "B1": 4, "A2": 2, "A3": 3, "C1": ("cse", "C1:D3", "=A1:B1*2")})
wb.TEMPLATES.setdefault("cse_col", {"A1": 1, "A2": 2, "A3": 3, "B1": 4, "C1": ("cse", "C1:D4", "=A1:A3-B1")})


def _expected(t, v):
    a1, a2, a3, b1 = v
    from pycel.excelutil import coerce_to_number

    def mul(x, y):
        return FIXUP(x, "Mult", y)
    if t == "cse_same":
        return {"C1": FIXUP(mul(a1, b1), "Add", 1), "C2": FIXUP(mul(a2, b1), "Add", 1), "C3": FIXUP(mul(a3, b1), "Add", 1)}
    if t == "cse_trim":
        return {"C1": mul(a1, b1), "C2": mul(a2, b1)}
    if t == "cse_scalar":
        s = FIXUP(a1, "Add", b1)
        return {"C1": s, "D1": s, "C2": s, "D2": s}
    if t == "cse_row":
        r = (mul(a1, 2), mul(b1, 2))
        return {"C1": r[0], "D1": r[1], "C2": r[0], "D2": r[1], "C3": r[0], "D3": r[1]}
    c = [FIXUP(x, "Sub", b1) for x in (a1, a2, a3)]
    return {"C1": c[0], "D1": c[0], "C2": c[1], "D2": c[1], "C3": c[2], "D3": c[2], "C4": NA_ERROR, "D4": NA_ERROR}


def ob_cse(t, members_first, cycles, k0: int, v0: int, k1: int, v1: int, k2: int, v2: int, k3: int, v3: int) -> Optional[bool]:
    """an array formula entered over a target range: every member cell shows its own element of the fitted result, and the
    range evaluates to the same elements, whichever is evaluated first"""
    ks, vs = (k0, k1, k2, k3), (v0, v1, v2, v3)
    for i in range(4):
        if not (0 <= ks[i] <= (2 if i in (0, 3) else 0) and -9 <= vs[i] <= 9):
            return None         # A1 and B1: number / logical / blank; A2, A3: numbers
    vals = tuple(_cell(ks[i], vs[i]) for i in range(4))
    with wb.notrace():
        m = ExcelCompiler(excel=wb.SubstWrapper(wb.make_workbook(t), {}),
                          cycles={"iterations": 5, "tolerance": 0.001} if cycles else None)
    for c, v in zip(("A1", "A2", "A3", "B1"), vals):
        m.excel.subst[wb.addr(c)] = v
    exp = _expected(t, vals)
    rng = wb.TEMPLATES[t]["C1"][1]
    if not members_first:
        whole = m.evaluate(wb.addr(rng))
    for c, e in exp.items():
        got = m.evaluate(wb.addr(c))
        e = 0 if e is None else e
        if not (_eq(got, e) or (isinstance(e, float) and got == e)):
            return False
    whole = m.evaluate(wb.addr(rng))
    rows = [list(r) for r in AddressRange(wb.addr(rng)).rows]
    if len(rows[0]) == 1:
        whole = tuple((x,) for x in whole) if not isinstance(whole[0], tuple) else whole
    for i, row in enumerate(rows):
        for j, a in enumerate(row):
            e = exp[a.coordinate]
            x = whole[i][j]
            if not (_eq(x, e) or _eq(x, 0 if e is None else e) or (isinstance(e, float) and x == e)):
                return False
    return True


def obligations(tier):
    obs = []
    shapes = [(0, 0), (1, 2), (2, 1), (2, 2), (1, 3), (2, 3)] if tier == "quick" else \
        [(0, 0), (1, 2), (2, 1), (2, 2), (1, 3), (3, 1), (2, 3), (3, 2), (3, 3)]

    def compatible(a, b):
        for x, y in zip(a, b):
            if x not in (0, 1) and y not in (0, 1) and x != y:
                return False
        return not (a == (0, 0) and b == (0, 0))
    for op in (("Add", "Lt", "BitAnd") if tier == "quick" else ("Add", "Lt", "BitAnd", "Mult", "Eq", "Sub")):
        for sa in shapes:
            for sb in shapes:
                if not compatible(sa, sb):
                    continue
                n = (sa[0] * sa[1] or 1) + (sb[0] * sb[1] or 1)
                if n > (6 if tier == "quick" else 12):
                    continue
                if tier != "quick" and n > (6 if op in ("Lt", "BitAnd") else 8 if op != "Add" else 9):
                    continue        # sized to run to completion: `<`/`&` beyond 8 cells never concluded in 1500 s, 12 cells need ~1100 s each
                if tier == "quick" and op != "Add" and n > 3:
                    continue
                sig = ", ".join([f"k{i}: int" for i in range(n)] + [f"v{i}: int" for i in range(n)])
                obs.append(Obligation(PROP, f"lift[{op},{sa[0]}x{sa[1]},{sb[0]}x{sb[1]}]", __name__, "ob_lift", (op, sa, sb),
                                      timeout=300 if n <= 6 else 1500, float_mode="real", sig=sig, group="lift"))
    for op in ("Add", "Eq", "BitAnd", "Div", "Lt"):
        for ai in range(len(CONCRETE_ARRAYS)):
            obs.append(Obligation(PROP, f"lift_concrete[{op},{ai}]", __name__, "ob_lift_concrete", (op, ai), timeout=120,
                                  float_mode="real", group="lift"))
    for fi, name in enumerate(("LEFT", "LEN", "SIGN")):
        for shape in ((1, 2), (2, 1), (2, 2)):
            n = shape[0] * shape[1]
            sig = ", ".join([f"k{i}: int" for i in range(n)] + [f"v{i}: int" for i in range(n)] + ["n: int"])
            if tier == "quick" and shape == (2, 2):
                continue
            obs.append(Obligation(PROP, f"lift_func[{name},{shape[0]}x{shape[1]}]", __name__, "ob_lift_func", (fi, shape),
                                  timeout=300, float_mode="real", sig=sig, group="lift"))
    mx = 3 if tier == "quick" else 4
    rshapes = [(0, 0)] + [(i, j) for i in range(1, mx + 1) for j in range(1, mx + 1)]
    tshapes = [(i, j) for i in range(1, mx + 1) for j in range(1, mx + 1) if (i, j) != (1, 1)]
    for rs in rshapes:
        for ts in tshapes:
            obs.append(Obligation(PROP, f"fit[{rs[0]}x{rs[1]}->{ts[0]}x{ts[1]}]", __name__, "ob_fit", (rs, ts), timeout=60,
                                  float_mode="real", group="fit"))
    for t in ("cse_same", "cse_trim", "cse_scalar", "cse_row", "cse_col"):
        for mf in (True, False):
            obs.append(Obligation(PROP, f"cse[{t},{'members' if mf else 'range'}-first]", __name__, "ob_cse", (t, mf, False),
                                  timeout=400 if tier == "quick" else 1500, float_mode="real", group="cse"))
            # the same with iterative calculation enabled (its evaluator closure is a different one)
            if tier != "quick" or (t, mf) in (("cse_trim", True), ("cse_scalar", False), ("cse_col", True)):
                obs.append(Obligation(PROP, f"cse_iter[{t},{'members' if mf else 'range'}-first]", __name__, "ob_cse", (t, mf, True),
                                      timeout=400 if tier == "quick" else 1500, float_mode="real", group="cse"))
    return obs
