"""C18 Radix conversions are exact inverses on Excel's 10-digit two's-complement range.

Engine K (astz3): the real code objects of _base2dec / _dec2base / _base2base (and the 12 partials) run
on z3-backed integers, digit strings (Numeral) and arbitrary ASCII text (Chars); only leaf built-ins
(int, str, len, isinstance, bin/oct/hex, frozenset membership) are models, installed in the module's
namespace for the duration of a run and validated against CPython beforehand.
"""
from typing import Optional

import pycel.lib.engineering as ENG

from vf.kengine import strings as KS
from vf.kengine.sym import SInt
from vf.obl import Obligation

PROP = "C18"
LEVEL = "model_checking"
ENCODES = ["pycel.lib.engineering:_base2dec", "pycel.lib.engineering:_dec2base", "pycel.lib.engineering:_base2base"]
BOUNDS = ["integers: the full ranges -512..511, -2^29..2^29-1, -2^39..2^39-1 plus 3 beyond each end, as one symbolic integer",
          "places 0..12 symbolic; digit strings as produced by the DEC2x functions (incl. zero padding), re-read character by character",
          "arbitrary input text: ASCII, length 0..11, every character a solver choice (illegal characters, signs, prefixes, underscores, blanks)",
          "a number as argument of x2DEC: -3..99999 (OCT2DEC: ..9999, five decimal digits re-read in base 8 leave z3 without an answer)",
          "bool / None / error-code arguments: enumerated concretely"]
ASSUMPTIONS = ["model of CPython's int(text, base) grammar (validated against CPython on all 354 964 strings of length <= 4 over a 17-character "
               "critical alphabet, bases 2/8/16/10; 19 characters, length <= 3, in the quick tier)", "Int <-> 64-bit vector conversion for & | ^ (operands asserted below 2^62)"]
EXTRA_MODELS = ["int(text, base): automaton for [ws][sign][0b|0o|0x]digits-with-single-underscores[ws]",
                "bin/oct/hex/str of a non-negative symbolic int -> Numeral(base, value); len/zfill/[2:]/upper on numerals",
                "x in ERROR_CODES -> disjunction of equalities"]

MASK = {2: 512, 8: 0x20000000, 16: 0x8000000000}
D2X = {2: ENG.dec2bin, 8: ENG.dec2oct, 16: ENG.dec2hex}
X2D = {2: ENG.bin2dec, 8: ENG.oct2dec, 16: ENG.hex2dec}
X2Y = {(2, 8): ENG.bin2oct, (2, 16): ENG.bin2hex, (8, 2): ENG.oct2bin, (8, 16): ENG.oct2hex, (16, 2): ENG.hex2bin, (16, 8): ENG.hex2oct}
DIGITS = {2: "01", 8: "01234567", 16: "0123456789abcdefABCDEF"}


ENG_ERRORS = frozenset(ENG.ERROR_CODES)


def _patch():
    extra = {"_BASE_TO_FUNC": {2: KS.k_bin, 8: KS.k_oct, 16: KS.k_hex}, "ERROR_CODES": KS.OrSet(ENG.ERROR_CODES)}
    if hasattr(ENG, "_BASE_DIGITS"):
        extra["_BASE_DIGITS"] = {b: KS.OrSet(v) for b, v in ENG._BASE_DIGITS.items()}
    return KS.patched(ENG, extra)


def _is_err(x):
    return type(x) is str and x[:1] == "#"


def kb_roundtrip(E, base, chars):
    """x2DEC(DEC2x(n)) = n on the range; DEC2x is #NUM! outside it; negatives are 10 digits two's complement"""
    n = E.int("n")
    m = MASK[base]
    E.assume((n >= -m - 3) & (n <= m + 2))
    with _patch():
        s = D2X[base](n)
        if not ((n >= -m) & (n < m)):
            return _is_err(s) and s == "#NUM!"
        if _is_err(s):
            return False
        if n < 0:
            if not ((s.length() == 10) & (s.value == n + 2 * m)):
                return False
        else:
            if not (s.value == n):
                return False
        back = X2D[base](s.to_chars() if chars else s)
        if _is_err(back):
            return False
        return back == n


def kb_places(E, base):
    """places pads with zeros (exact length) or yields #NUM! when too small; negative numbers ignore places"""
    n, p = E.int("n"), E.int("p")
    m = MASK[base]
    E.assume((n >= -m) & (n < m) & (p >= 0) & (p <= 12))
    with _patch():
        s = D2X[base](n, p)
        plain = D2X[base](n)
        need = plain.length()
        if n < 0:
            if _is_err(s):
                return (p < 10) & (s == "#NUM!")
            return (s.length() == 10) | (s.length() == p)
        if p < need:
            return _is_err(s) and s == "#NUM!"
        if _is_err(s):
            return False
        ok = (s.value == n) & (s.length() == (p if p >= need else need))
        back = X2D[base](s.to_chars()) if (s.length() <= 10) else None
        if back is None:
            return ok
        return ok & (back == n)


def kb_compose(E, bi, bo):
    """the direct function equals the composition through decimal: x2y(s) = DEC2y(x2DEC(s)) for s = DEC2x(n, places)"""
    n, p = E.int("n"), E.int("p")
    m = MASK[bi]
    E.assume((n >= -m) & (n < m) & (p >= 0) & (p <= 10))
    with _patch():
        s = D2X[bi](n, p)
        if _is_err(s):
            return None
        s = s.to_chars()
        direct = X2Y[(bi, bo)](s)
        via = D2X[bo](X2D[bi](s))
        if _is_err(direct) or _is_err(via):
            return _is_err(direct) and _is_err(via) and direct == via
        return direct == via


def kb_text(E, base, region):
    """arbitrary text of up to 11 characters: the result is a number only if every character is a digit of the base (and
    then it is the two's-complement value), anything else is #NUM! / #VALUE!; never an exception.
    region=False: texts made of digits / letters / punctuation the int() grammar gives no special meaning;
    region=True: texts with a sign, blank, underscore or base prefix (known finding while open)"""
    t = E.chars("t", 11)
    with _patch():
        if E.concrete is not None:
            alldig = all(ch in DIGITS[base] for ch in t)
            special = any(ch in " +-_\t\n\r\x0b\x0c" for ch in t)
            pre = t[:2].lower() in (("0x",) if base == 16 else ("0b", "0o", "0x"))
        else:
            alldig = t.all_in(DIGITS[base])
            special = t.any_in(" +-_\t\n\r\x0b\x0c")
            pre = t.startswith(("0x", "0X") if base == 16 else ("0b", "0B", "0o", "0O", "0x", "0X"))
        special = special | pre
        if bool(special) != region:
            return None
        if t == "#EMPTY!":
            return None                     # pycel's internal blank sentinel is not user text
        alldig = bool(alldig)
        special = bool(special)
        r = X2D[base](t)
        if isinstance(r, KS.Chars):
            return True                     # the text itself came back: it spells an error code (error operands pass through)
        if _is_err(r):
            return r in ENG_ERRORS          # #NUM! / #VALUE!, or the error code the text itself spells
        if not alldig:
            return False                # a number for a text outside the alphabet
        ln = len(t) if E.concrete is not None else t.length()
        if not (ln >= 1) or not (ln <= 10):
            return False
        m = MASK[base]
        return (r >= -m) & (r < m)


def kb_after_bool(E, base):
    """a call with a logical argument (#VALUE!) does not change what later calls with the equal number return"""
    n = E.int("n")
    E.assume((n >= -2) & (n <= 2))
    with _patch():
        first = D2X[base](True)
        also = D2X[base](False)
        if first != "#VALUE!" or also != "#VALUE!":
            return False
        s = D2X[base](n)
        if _is_err(s):
            return False
        return s.value == (n if n >= 0 else n + 2 * MASK[base])


def kb_number_arg(E, base):
    """x2DEC given a number: its decimal rendering is read in the base (digits beyond the base or negative -> #NUM!)"""
    n = E.int("n")
    E.assume((n >= -3) & (n <= (9999 if base == 8 else 99999)))
    with _patch():
        r = X2D[base](n)
        if n < 0:
            return _is_err(r)
        if _is_err(r):
            return r == "#NUM!"
        return (r >= -MASK[base]) & (r < MASK[base])


def prepare(tier, workdir):
    n = KS.validate_parse_int(4 if tier == "thorough" else 3)
    # concrete rows of the repo's own tests through the patched kernels (translator validation)
    rows = 0
    with _patch():
        for b in (2, 8, 16):
            for v in (0, 1, 7, 255, 511, -1, -512, MASK[b] - 1, -MASK[b], MASK[b], -MASK[b] - 1):
                real = D2X[b](v)
                rows += 1
                if not _is_err(real):
                    assert X2D[b](real) == v, (b, v, real)
            for bad in (True, None, "#REF!", "zz", "0b11", " 1", "1_0", "+1"):
                X2D[b](bad)
                D2X[b](bad if not isinstance(bad, str) or bad[:1] == "#" else 3)
                rows += 2
    return {"validated_rows": n + rows, "int_model_strings_checked": n}


def obligations(tier):
    obs = []

    def add(oid, func, params, timeout=120, known=None, group=""):
        obs.append(Obligation(PROP, oid, __name__, func, tuple(params), timeout=timeout, engine="K", known=known, group=group))
    for b in (2, 8, 16):
        add(f"roundtrip[{b}]", "kb_roundtrip", (b, False), group="roundtrip")
        add(f"roundtrip_chars[{b}]", "kb_roundtrip", (b, True), 300, group="roundtrip")
        add(f"places[{b}]", "kb_places", (b,), 300, group="places")
        add(f"text[{b}]", "kb_text", (b, False), 400, group="text")
        add(f"text_special[{b}]", "kb_text", (b, True), 400, group="text")
        add(f"after_bool[{b}]", "kb_after_bool", (b,), 60, group="state")
        add(f"number_arg[{b}]", "kb_number_arg", (b,), 300, group="text")
    for (bi, bo) in X2Y:
        add(f"compose[{bi}->{bo}]", "kb_compose", (bi, bo), 400, group="compose")
    return obs
