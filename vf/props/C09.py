"""C09 A failed evaluation does not corrupt the model.

Engine X on the real eval_func / error_logger / capture_error_state / _evaluate / _evaluate_range /
_process_gen_graph (range_todos) / _CycleCell with a fault-injecting plugin function whose failure
condition (threshold, call number) and the cell values are symbolic.
"""
from typing import Optional

from pycel.excelcompiler import ExcelCompiler
from pycel.excelutil import PyCelException

from vf import vfplugin, wb
from vf.obl import Obligation
from vf.props.C01 import _eq

PROP = "C09"
LEVEL = "model_checking"
ENCODES = ["pycel.excelformula:ExcelFormula.build_eval_context", "pycel.excelcompiler:ExcelCompiler._evaluate",
           "pycel.excelcompiler:ExcelCompiler._evaluate_range", "pycel.excelcompiler:ExcelCompiler._process_gen_graph",
           "pycel.excelcompiler:ExcelCompiler.set_value", "pycel.excelcompiler:_CycleCell",
           "pycel.excelutil:_ArrayFormulaContext", "pycel.excelcompiler:ExcelCompiler.eval"]
BOUNDS = ["failing site: leaf formula, mid-chain, member of a summed range, member of a CSE array, unknown function, formula with a captured #DIV/0!, a cell inside a circular reference; plain mode, and iterative mode for the sites that read no range",
          "failure condition: argument above a symbolic threshold, or the k-th call (k symbolic 1..3); raised exception ValueError / NameError (quick) + ZeroDivisionError / KeyError (thorough)",
          "follow-ups: retry the failing cell, evaluate a dependant, evaluate an unrelated cell, overwrite the failing cell with a symbolic constant and evaluate everything",
          "values ints |v|<=99"]
ASSUMPTIONS = ["floats as exact reals"]

T = wb.TEMPLATES
T.setdefault("f_leaf", {"A1": 1000, "A2": 4, "B1": "=VFAIL(A1)", "C1": "=B1+1", "D1": "=A2*2", "E1": "=C1+D1"})
T.setdefault("f_mid", {"A1": 1000, "A2": 4, "B1": "=A1*2", "C1": "=VFAIL(B1)+A2", "D1": "=C1-1", "E1": "=A2+B1"})
T.setdefault("f_range", {"A1": 1000, "A2": 4, "B1": "=VFAIL(A1)", "B2": "=A2+1", "C1": "=SUM(B1:B2)", "D1": "=B2*2"})
T.setdefault("f_cse", {"A1": 1000, "A2": 4, "B1": ("cse", "B1:B2", "=VFAIL(A1:A2)*2"), "C1": "=B1+B2", "D1": "=A2+1"})
T.setdefault("f_unknown", {"A1": 1000, "A2": 4, "B1": "=NOSUCHFUNCTION(A1)", "C1": "=B1+1", "D1": "=A2*2"})
T.setdefault("f_cycle", {"A1": 1000, "A2": 4, "B1": "=A1+VFAIL(B2)/2", "B2": "=B1/2", "C1": "=B1+1", "D1": "=A2*2"})
T.setdefault("f_captured", {"A1": 1000, "A2": 4, "B1": "=IFERROR(A2/0,0)+VFAIL(A1)", "C1": "=B1+1", "D1": "=A2*2"})

FAIL_CELL = {"f_cycle": "B1", "f_leaf": "B1", "f_mid": "C1", "f_range": "B1", "f_cse": "B1", "f_unknown": "B1", "f_captured": "B1"}
DEPENDANT = {"f_cycle": "C1", "f_leaf": "E1", "f_mid": "D1", "f_range": "C1", "f_cse": "C1", "f_unknown": "C1", "f_captured": "C1"}
UNRELATED = {"f_cycle": "D1", "f_leaf": "D1", "f_mid": "E1", "f_range": "D1", "f_cse": "D1", "f_unknown": "D1", "f_captured": "D1"}
EXCS = (ValueError, NameError, ZeroDivisionError, KeyError, RecursionError)   # the last leaves the evaluator as a RecursionError (pycel's own message), not as a PyCelException


def _build(tname, cycles):
    with wb.notrace():
        return ExcelCompiler(excel=wb.make_workbook(tname), plugins=("vf.vfplugin",),
                             cycles={"iterations": 5, "tolerance": 0.001} if cycles else None)


def _warm(m, tname):
    """bring every cell into the model with failures disabled (iterative mode needs a second pass to
    compute cells that were built during the first one)"""
    vfplugin.reset()
    with wb.notrace():
        for _ in range(2):
            for a in wb.all_cells(tname):
                try:
                    m.evaluate(a)
                except Exception:  # noqa
                    pass


def _try(m, a):
    """('ok', value) | ('pycel', exc) | ('bare', exc)"""
    try:
        return "ok", m.evaluate(a)
    except PyCelException as e:
        return "pycel", e
    except RecursionError as e:
        return "pycel", e
    except Exception as e:  # noqa
        return "bare", e


def _oracle(tname, cur):
    """reference values with VFAIL as the identity (no failure injected)"""
    vfplugin.reset()
    return wb.oracle_with(tname, cur, plugins=("vf.vfplugin",))


def ob_fail(tname, cycles, ei, repair_iter, v: int, t: int, c: int) -> Optional[bool]:
    """the cell fed v fails iff v > t.  Then: the failing cell and its dependant fail again with pycel's own error on
    every retry (never a value, never a bare exception), the unrelated cell is correct, and after overwriting the
    failing cell with the constant c everything evaluates as in a fresh model"""
    if not (-99 <= v <= 99 and -99 <= t <= 99 and -99 <= c <= 99):
        return None
    if tname == "f_unknown":
        t = -100            # always fails
    m = _build(tname, cycles)
    _warm(m, tname)
    vfplugin.reset(threshold=t, exc=EXCS[ei])
    a1 = wb.addr("A1")
    fail, dep, unrel = wb.addr(FAIL_CELL[tname]), wb.addr(DEPENDANT[tname]), wb.addr(UNRELATED[tname])
    m.set_value(a1, v)
    fed = v * 2 if tname == "f_mid" else v
    will_fail = fed > t or (tname == "f_cse" and 4 > t)
    first = _try(m, dep)
    if not will_fail:
        exp = _oracle(tname, {a1: v})
        vfplugin.reset(threshold=t, exc=EXCS[ei])
        return first[0] == "ok" and _eq(first[1], exp[dep]) and _eq(m.evaluate(fail), exp[fail])
    if first[0] != "pycel":
        return False
    for a in (fail, dep, fail):
        if _try(m, a)[0] != "pycel":
            return False
    exp = _oracle(tname, {a1: v})
    vfplugin.reset(threshold=t, exc=EXCS[ei])
    u = _try(m, unrel)
    if u[0] != "ok" or not _eq(u[1], exp[unrel]):
        return False
    # repair: overwrite the failing cell with a constant
    if tname == "f_cse":
        return True
    if cycles and not repair_iter:
        return True         # known finding C09-iter-overwrite: asserted by the *_repair_iter obligations
    m.set_value(fail, c)
    exp2 = _oracle(tname, {a1: v, fail: c})
    vfplugin.reset(threshold=t, exc=EXCS[ei])
    for a in (dep, unrel, fail):
        r = _try(m, a)
        if r[0] != "ok" or not _eq(r[1], exp2[a]):
            return False
    return True


def ob_fail_cycle(ei, v: int, t: int) -> Optional[bool]:
    """a failure inside a circular reference (iterative mode): the cycle cell and its dependant raise pycel's own error on every
    retry, an unrelated cell is correct, and when the input no longer triggers the failure the cycle converges again"""
    if not (-99 <= v <= 99 and 0 <= t <= 99):
        return None
    m = _build("f_cycle", True)
    _warm(m, "f_cycle")
    vfplugin.reset(threshold=t, exc=EXCS[ei])
    a1, b1, c1, d1 = wb.addr("A1"), wb.addr("B1"), wb.addr("C1"), wb.addr("D1")
    m.set_value(a1, 4 * t + 400)          # B2 climbs to (4t+400)/3 > t within the passes: VFAIL raises
    first = _try(m, c1)
    if first[0] != "pycel":
        return False
    for a in (b1, c1):
        if _try(m, a)[0] != "pycel":
            return False
    u = _try(m, d1)
    if u[0] != "ok" or not _eq(u[1], 8):
        return False
    vfplugin.reset()                      # failure condition gone
    m.set_value(a1, v)
    r = _try(m, b1)
    if r[0] != "ok":
        return False
    # fixed point of B1 = v + B1/4 is 4v/3: after the configured passes within 2 x tolerance-scale of it
    x = r[1]
    err = x * 3 - 4 * v
    return -40 <= err <= 40          # 5 passes contract the old value (<= 1400) by 4^-5


def ob_fail_kth(tname, cycles, k: int, v: int, c: int) -> Optional[bool]:
    """the plugin fails on its k-th call (k symbolic): whichever evaluation that hits raises pycel's own error, earlier and
    later evaluations return correct values"""
    if not (1 <= k <= 3 and -99 <= v <= 99 and -99 <= c <= 99):
        return None
    m = _build(tname, cycles)
    _warm(m, tname)
    a1 = wb.addr("A1")
    fail, dep, unrel = wb.addr(FAIL_CELL[tname]), wb.addr(DEPENDANT[tname]), wb.addr(UNRELATED[tname])
    exp = wb.oracle_with(tname, {a1: v}, plugins=("vf.vfplugin",), pre=lambda: vfplugin.reset())
    vfplugin.reset(fail_on_call=k)
    m.set_value(a1, v)
    calls = 0
    for rnd in range(3):
        before = vfplugin.CTRL["calls"]
        r = _try(m, dep)
        if r[0] == "bare":
            return False
        if r[0] == "ok":
            if not _eq(r[1], exp[dep]):
                return False
        u = _try(m, unrel)
        if u[0] != "ok" or not _eq(u[1], exp[unrel]):
            return False
    # by now the k-th call is behind us (each failing evaluate calls the plugin once): values are correct
    r = _try(m, dep)
    return r[0] == "ok" and _eq(r[1], exp[dep])


def obligations(tier):
    obs = []
    for t in ("f_leaf", "f_mid", "f_range", "f_cse", "f_unknown", "f_captured"):
        for cycles in (False, True):
            for ei in ((0, 1) if tier == "quick" else (0, 1, 2, 3)):
                obs.append(Obligation(PROP, f"fail[{t},{'iter' if cycles else 'plain'},{EXCS[ei].__name__}]", __name__, "ob_fail",
                                      (t, cycles, ei, False), timeout=300, float_mode="real", group=t))
            if t in ("f_leaf", "f_mid") or tier != "quick":
                obs.append(Obligation(PROP, f"fail[{t},{'iter' if cycles else 'plain'},RecursionError]", __name__, "ob_fail",
                                      (t, cycles, 4, False), timeout=300, float_mode="real", group=t))
            if cycles and t == "f_leaf":
                obs.append(Obligation(PROP, f"fail_repair_iter[{t}]", __name__, "ob_fail", (t, True, 0, True), timeout=120,
                                      float_mode="real", group=t, known="C09-iter-overwrite"))
            if t == "f_leaf" and cycles:
                for ei in (0, 1):
                    obs.append(Obligation(PROP, f"fail_cycle[{EXCS[ei].__name__}]", __name__, "ob_fail_cycle", (ei,), timeout=300,
                                          float_mode="real", group="f_cycle"))
            if t in ("f_leaf", "f_mid", "f_range"):
                obs.append(Obligation(PROP, f"fail_kth[{t},{'iter' if cycles else 'plain'}]", __name__, "ob_fail_kth",
                                      (t, cycles), timeout=300, float_mode="real", group=t))
    return obs
