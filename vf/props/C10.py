"""C10 Operators are total and follow Excel coercion, error and ordering rules.

Engine X on the real closure `fixup` returned by build_operator_operand_fixup
(and through it coerce_to_number, is_number, type_cmp_value, ExcelCmp).
"""
from typing import Optional, Union

from pycel.excelutil import (
    build_operator_operand_fixup, DIV0, VALUE_ERROR, ERROR_CODES, coerce_to_number)

from vf.dom import V, ERRORS, in_dom, pick_err, same, is_excel_scalar, is_ascii
from vf.obl import Obligation

PROP = "C10"
LEVEL = "model_checking"
ENCODES = [
    "pycel.excelutil:build_operator_operand_fixup", "pycel.excelutil:coerce_to_number",
    "pycel.excelutil:is_number", "pycel.excelutil:type_cmp_value", "pycel.excelutil:ExcelCmp",
    "pycel.excelutil:list_like", "pycel.excelutil:coerce_to_string",
]

_captured = []


def _capture(is_exception, msg):
    pass


FIXUP = build_operator_operand_fixup(_capture)

ARITH = ("Add", "Sub", "Mult", "Div")
CMP = ("Eq", "NotEq", "Lt", "LtE", "Gt", "GtE")
ALL_OPS = ARITH + ("Pow", "BitAnd") + CMP

# concrete text pool for arithmetic coercion (text->number parsing realises symbolic text)
TEXT_POOL = (("1", 1), ("-2", -2), ("1.5", 1.5), ("07", 7), ("a", None), ("1a", None), (" ", None),
             ("TRUE ", None), (" false", None), ("\ttrue\n", None))  # padded logical words are ordinary text


# ---------------------------------------------------------------- totality / type
def ob_total(op, a: V, b: V) -> Optional[bool]:
    """op(a, b) returns an Excel scalar and never raises, a, b over int|bool|None|str."""
    if not (in_dom(a) and in_dom(b)):
        return None
    r = FIXUP(a, op, b)
    return is_excel_scalar(r)


def ob_total_div(d, a: Union[int, bool, None, float]) -> Optional[bool]:
    """a / d and d / a for a concrete d: Excel scalar, #DIV/0! exactly when the divisor is 0"""
    if not in_dom(a):
        return None
    r = FIXUP(a, "Div", d)
    if _num(d) == 0:
        if not same(r, DIV0):
            return False
    elif isinstance(r, (str, bool)) or r * _num(d) != _num(a):
        return False
    r2 = FIXUP(d, "Div", a)
    if _num(a) == 0:
        return same(r2, DIV0)
    if _num(d) == 0:
        return not isinstance(r2, (str, bool)) and r2 == 0
    return not isinstance(r2, (str, bool)) and r2 * _num(a) == _num(d)


def ob_total_float(op, a: float, b: Union[int, float, bool, None]) -> Optional[bool]:
    if not (in_dom(a) and in_dom(b)):
        return None
    r = FIXUP(a, op, b)
    r2 = FIXUP(b, op, a)
    return is_excel_scalar(r) and is_excel_scalar(r2)


def ob_usub(a: Union[int, bool, None]) -> Optional[bool]:
    """unary minus: total; numbers negate, logical/blank as numbers"""
    if not in_dom(a):
        return None
    r = FIXUP(None, "USub", a)
    if isinstance(a, bool):
        return same(r, -int(a))
    if a is None:
        return same(r, 0)
    if isinstance(a, int):
        return same(r, -a)
    return is_excel_scalar(r)


# ---------------------------------------------------------------- error propagation
def ob_err_left(op, e: int, b: V, eb: int) -> Optional[bool]:
    """left error operand is returned unchanged whatever the right operand (incl. another error)"""
    if not (0 <= e < 7 and in_dom(b) and -1 <= eb < 7):
        return None
    right = b if eb < 0 else pick_err(eb)
    err = pick_err(e)
    return FIXUP(err, op, right) == err


def ob_err_right(op, a: V, e: int) -> Optional[bool]:
    """right error operand is returned when the left operand is not an error"""
    if not (0 <= e < 7 and in_dom(a)):
        return None
    if isinstance(a, str) and a in ERROR_CODES:
        return None
    err = pick_err(e)
    return FIXUP(a, op, err) == err


# ---------------------------------------------------------------- arithmetic coercion
def _num(v):
    if v is None:
        return 0
    if isinstance(v, bool):
        return int(v)
    return v


def _ref_arith(op, x, y):
    if op == "Add":
        return x + y
    if op == "Sub":
        return x - y
    if op == "Mult":
        return x * y
    if y == 0:
        return DIV0
    return x / y


def ob_arith_coerce(op, a: Union[int, bool, None], b: Union[int, bool, None]) -> Optional[bool]:
    """logicals and blanks are numbers in + - * /; x/0 is #DIV/0!"""
    if not (in_dom(a) and in_dom(b)):
        return None
    r = FIXUP(a, op, b)
    return same(r, _ref_arith(op, _num(a), _num(b)))


def ob_arith_text(op, ti, left, b: Union[int, bool, None]) -> Optional[bool]:
    """numeric text is its number, other text is #VALUE! (text from a concrete pool)"""
    if not in_dom(b):
        return None
    text, num = TEXT_POOL[ti]
    r = FIXUP(text, op, b) if left else FIXUP(b, op, text)
    if num is None:
        return same(r, VALUE_ERROR)
    exp = _ref_arith(op, num, _num(b)) if left else _ref_arith(op, _num(b), num)
    return same(r, exp) or (not isinstance(exp, str) and not isinstance(r, str) and r == exp)


def ob_arith_float(op, a: float, b: float) -> Optional[bool]:
    """floats as reals: + - / agree with real arithmetic, x/0 is #DIV/0!"""
    if not (in_dom(a) and in_dom(b)):
        return None
    r = FIXUP(a, op, b)
    exp = _ref_arith(op, a, b)
    if isinstance(exp, str):
        return same(r, exp)
    return not isinstance(r, (str, bool)) and r == exp


# ---------------------------------------------------------------- concatenation
def _render(v):
    if v is None:
        return ""
    if isinstance(v, bool):
        return "TRUE" if v else "FALSE"
    if isinstance(v, int):
        return str(v)
    return v


def ob_concat(a: V, b: V) -> Optional[bool]:
    """& concatenates the Excel renderings (TRUE/FALSE, blank as empty, ints in decimal)"""
    if not (in_dom(a) and in_dom(b)):
        return None
    if (isinstance(a, str) and a in ERROR_CODES) or (isinstance(b, str) and b in ERROR_CODES):
        return None
    r = FIXUP(a, "BitAnd", b)
    return same(r, _render(a) + _render(b))


def ob_concat_intfloat(k: int, b: V) -> Optional[bool]:
    """an integral float renders like the integer (3 not 3.0)"""
    if not (in_dom(k) and in_dom(b)) or isinstance(k, bool):
        return None
    if isinstance(b, str) and b in ERROR_CODES:
        return None
    return same(FIXUP(float(k), "BitAnd", b), str(k) + _render(b)) and \
        same(FIXUP(b, "BitAnd", float(k)), _render(b) + str(k))


# ---------------------------------------------------------------- comparisons
def _lower(s):
    return s.lower()


def _rank(v):
    if isinstance(v, bool):
        return 2
    if isinstance(v, str):
        return 1
    return 0


def _neutral(other):
    if isinstance(other, bool):
        return False
    if isinstance(other, str):
        return ""
    return 0


def _ref_cmp(a, b):
    """-1, 0, 1 in Excel's total order; blank is the neutral value of the other side"""
    if a is None and b is None:
        return 0
    if a is None:
        a = _neutral(b)
    if b is None:
        b = _neutral(a)
    ra, rb = _rank(a), _rank(b)
    if ra != rb:
        return -1 if ra < rb else 1
    if ra == 1:
        a, b = _lower(a), _lower(b)
    if a == b:
        return 0
    return -1 if a < b else 1


def _cmp_ok(a, b):
    c = _ref_cmp(a, b)
    lt, eq, gt = FIXUP(a, "Lt", b), FIXUP(a, "Eq", b), FIXUP(a, "Gt", b)
    ne, le, ge = FIXUP(a, "NotEq", b), FIXUP(a, "LtE", b), FIXUP(a, "GtE", b)
    for r in (lt, eq, gt, ne, le, ge):
        if not isinstance(r, bool):
            return False
    if (lt, eq, gt) != (c < 0, c == 0, c > 0):
        return False
    return ne == (not eq) and le == (not gt) and ge == (not lt)


def ob_cmp(a: V, b: V) -> Optional[bool]:
    """exactly one of < = > as the reference total order says; <> <= >= are the complements"""
    if not (in_dom(a) and in_dom(b)):
        return None
    if (isinstance(a, str) and a in ERROR_CODES) or (isinstance(b, str) and b in ERROR_CODES):
        return None
    return _cmp_ok(a, b)


def ob_cmp_float(a: float, b: Union[int, float]) -> Optional[bool]:
    if not (in_dom(a) and in_dom(b)) or isinstance(b, bool):
        return None
    return _cmp_ok(a, b) and _cmp_ok(b, a)


def ob_cmp_trans(a: V, b: V, c: V) -> Optional[bool]:
    """transitivity of <= on triples (blank excluded: it is not one point of the order)"""
    if not (in_dom(a, slen=1) and in_dom(b, slen=1) and in_dom(c, slen=1)):
        return None
    if a is None or b is None or c is None:
        return None
    for v in (a, b, c):
        if isinstance(v, str) and v == "":
            return None
    if FIXUP(a, "LtE", b) is True and FIXUP(b, "LtE", c) is True:
        return FIXUP(a, "LtE", c) is True
    return True


def ob_cmp_case(a: str, up: bool) -> Optional[bool]:
    """text comparison ignores case"""
    if len(a) > 3 or not is_ascii(a):
        return None
    b = a.upper() if up else a.lower()
    return FIXUP(a, "Eq", b) is True and FIXUP(b, "NotEq", a) is False


# ---------------------------------------------------------------- pow on ints
def ob_pow_int(a: int, b: int) -> Optional[bool]:
    if not (-20 <= a <= 20 and 0 <= b <= 5):
        return None
    r = FIXUP(a, "Pow", b)
    exp = 1
    for i in range(5):
        if i < b:
            exp = exp * a
    return same(r, exp)


POW_EXPONENTS = (0.5, -0.5, 2.5, 400, -400, 1000, 3, -3, 0, 1)


def ob_pow_float(bi, a: Union[float, int]) -> Optional[bool]:
    """a ^ b (b from a concrete pool) is a number or an error value: never complex, never raises"""
    if not in_dom(a) or isinstance(a, bool):
        return None
    r = FIXUP(a, "Pow", POW_EXPONENTS[bi])
    return is_excel_scalar(r)


# ------------------------------------------------------------------ binary64 comparisons (Engine K)
def kb_cmp_binary64(E):
    """over all finite binary64 pairs the real ExcelCmp gives exactly one of < = > (no tolerance in the order)"""
    import z3
    import pycel.excelutil as U
    from vf.kengine import strings as KS
    from vf.kengine.sym import SBool, SFloat
    a, b = E.fp("a"), E.fp("b")
    E.fresh_checks = True
    if E.concrete is None:
        E.add(z3.And(z3.Not(z3.fpIsNaN(a.e)), z3.Not(z3.fpIsInf(a.e)), z3.Not(z3.fpIsNaN(b.e)), z3.Not(z3.fpIsInf(b.e))))

        def fmax(x, y):
            return SFloat(z3.If(z3.fpGEQ(x.e, y.e), x.e, y.e), E)

        def k_isclose(x, y, *, rel_tol=1e-09, abs_tol=0.0):
            if not isinstance(x, SFloat) and not isinstance(y, SFloat):
                import math
                return math.isclose(x, y, rel_tol=rel_tol, abs_tol=abs_tol)
            x = x if isinstance(x, SFloat) else SFloat(z3.FPVal(float(x), z3.Float64()), E)
            y = y if isinstance(y, SFloat) else SFloat(z3.FPVal(float(y), z3.Float64()), E)
            if x == y:
                return True
            diff = abs(x - y)
            bound = fmax(fmax(abs(x), abs(y)) * rel_tol, SFloat(z3.FPVal(float(abs_tol), z3.Float64()), E))
            return diff <= bound

        class KMathX:
            def __getattr__(self, n):
                import math
                return getattr(math, n)
            isclose = staticmethod(k_isclose)
        ctx = KS.patched(U, {"ERROR_CODES": KS.OrSet(U.ERROR_CODES), "math": KMathX()})
    else:
        import contextlib
        import math
        if not (math.isfinite(a) and math.isfinite(b)):
            return None
        ctx = contextlib.nullcontext()
    with ctx:
        ca, cb = U.ExcelCmp(a), U.ExcelCmp(b)
        lt, eq, gt = bool(ca < cb), bool(ca == cb), bool(ca > cb)
        le, ge, ne = bool(ca <= cb), bool(ca >= cb), bool(ca != cb)
    one = (lt + eq + gt) == 1
    return one and le == (not gt) and ge == (not lt) and ne == (not eq)


def obligations(tier):
    obs = []

    def add(oid, func, params=(), timeout=60, float_mode="real", known=None, desc="", group=""):
        obs.append(Obligation(PROP, oid, __name__, func, tuple(params), timeout=timeout,
                              float_mode=float_mode, known=known, desc=desc, group=group))
    for op in ("BitAnd",) + CMP:
        add(f"total[{op}]", "ob_total", (op,), 60, group="total", desc="result is an Excel scalar, no exception")
    for op in ("Add", "Sub", "Mult"):
        obs.append(Obligation(PROP, f"total[{op}]", __name__, "ob_total", (op,), timeout=60, float_mode="real",
                              sig="a: Union[int, bool, None], b: Union[int, bool, None]", group="total"))
    for op in ("Add", "Sub", "Mult") + CMP:
        add(f"total_float[{op}]", "ob_total_float", (op,), 60, "real", group="total")
    for d in (0, 1, -3, 7, True, False, None, 0.5, -2.5):
        add(f"total_div[{d!r}]", "ob_total_div", (d,), 60, group="total")
    add("usub", "ob_usub", (), 30, group="total")
    for op in ALL_OPS:
        add(f"err_left[{op}]", "ob_err_left", (op,), 60, group="error")
        add(f"err_right[{op}]", "ob_err_right", (op,), 60, group="error")
    for op in ARITH:
        if op != "Div":
            add(f"arith_coerce[{op}]", "ob_arith_coerce", (op,), 90, group="arith")
        for ti in range(len(TEXT_POOL)):
            if tier == "quick" and ti not in (0, 2, 4, 7):
                continue
            for left in (True, False):
                add(f"arith_text[{op},{TEXT_POOL[ti][0]!r},{'L' if left else 'R'}]", "ob_arith_text",
                    (op, ti, left), 60, "real", group="arith")
    for op in ("Add", "Sub"):
        add(f"arith_float[{op}]", "ob_arith_float", (op,), 60, "real", group="arith")
    add("concat", "ob_concat", (), 120, group="concat")
    add("concat_intfloat", "ob_concat_intfloat", (), 120, "real", group="concat")
    add("cmp", "ob_cmp", (), 180, group="cmp")
    add("cmp_float", "ob_cmp_float", (), 90, "real", group="cmp")
    add("cmp_case", "ob_cmp_case", (), 90, group="cmp")
    add("cmp_trans", "ob_cmp_trans", (), 300 if tier == "thorough" else 120, group="cmp")
    obs.append(Obligation(PROP, "cmp_binary64", __name__, "kb_cmp_binary64", (), timeout=300, engine="K", group="cmp"))
    add("pow_int", "ob_pow_int", (), 200, group="pow")
    for bi in range(len(POW_EXPONENTS)):
        e = POW_EXPONENTS[bi]
        obs.append(Obligation(PROP, f"pow_float[{e}]", __name__, "ob_pow_float", (bi,), timeout=60, float_mode="real",
                              sig="a: float" if (isinstance(e, int) and e >= 0) else "a: Union[float, int]",
                              group="pow"))
    return obs
