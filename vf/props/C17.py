"""C17 Date serial numbers form Excel's 1900 calendar.

Engine X on the apply_meta-wrapped DATE/YEAR/MONTH/DAY/WEEKDAY/EDATE/EOMONTH/YEARFRAC (through the
real date_from_int / normalize_year / months_inc) over the whole serial range; the time-of-day
decomposition is an Engine K (binary64) obligation family.
"""
from typing import Optional

from pycel.excelutil import NUM_ERROR
from pycel.lib import date_time as D
from pycel.lib.function_helpers import apply_meta

from vf.dom import same
from vf.obl import Obligation

PROP = "C17"
LEVEL = "model_checking"
ENCODES = ["pycel.lib.date_time:date_from_int", "pycel.lib.date_time:normalize_year", "pycel.lib.date_time:date",
           "pycel.lib.date_time:months_inc", "pycel.lib.date_time:edate", "pycel.lib.date_time:eomonth",
           "pycel.lib.date_time:weekday", "pycel.lib.date_time:yearfrac", "pycel.lib.date_time:max_days_in_month",
           "pycel.lib.date_time:is_leap_year", "pycel.lib.date_time:time_from_serialnumber"]
BOUNDS = ["round trip, parts, weekday, serial range: every serial day 0..2958465 as one symbolic integer",
          "DATE carry: years 1900..9990, months -40..60, days 1..60 and 330..420 (thorough: months -1300..1300 with days 1..31)",
          "civil date against an independent Gregorian oracle: days 0..61 (quick: anchor) and 1900-1931 (thorough); exact month lengths and "
          "day succession in windows of ~1000 days around 1900, 2000, 2100, 2400 and the end of 9999 (thorough) - beyond day 60 "
          "date_from_int is DATE_ZERO + timedelta(days=n), so these pin the offset; the calendar in between is CPython's",
          "EDATE/EOMONTH: around the fictitious 1900-02-29 and the calendar start; EDATE(n,k) = DATE(y,m+k,d) and "
          "EOMONTH(n,k) = DATE(y,m+k+1,1)-1 were tried for |k| <= 1200 and |k| <= 14 in 1000-day windows and gave no verdict (as did a "
          "month-index oracle over the whole range): month arithmetic away from 1900 is decided only through DATE itself",
          "DATE in a history: Februaries of 1900/1904/2000/2100/2300/2400/9900 x days 28..30, two calls",
          "YEARFRAC: symmetry for bases 2, 3 over the whole range; bases 0 and 4 with both dates in the 2000 / 2100 windows (thorough); "
          "basis 1 not decided (458 paths in 900 s, no verdict)",
          "HOUR/MINUTE/SECOND: whole seconds of a day in binary64, 10-minute slices: 00:00, 11:50, 12:00, 23:50 on day 0 (quick); all 144 slices on day 0 and day 45000 (thorough)"]
ASSUMPTIONS = ["CrossHair's model of datetime/timedelta arithmetic (proleptic Gregorian ordinal arithmetic on symbolic ints)",
               "floats as exact reals in YEARFRAC"]

MAXN = 2958465
DMAX = 60


def _w(f):
    return apply_meta(f, name_space={})[0]


DATE, YEAR, MONTH, DAY, WEEKDAY = _w(D.date), _w(D.year), _w(D.month), _w(D.day), _w(D.weekday)
EDATE, EOMONTH, YEARFRAC = _w(D.edate), _w(D.eomonth), _w(D.yearfrac)


def _civil(z):
    """proleptic Gregorian (y, m, d) of day number z counted from 1970-01-01 (H. Hinnant's algorithm,
    integer arithmetic only): the independent oracle"""
    z += 719468
    era = z // 146097
    doe = z - era * 146097
    yoe = (doe - doe // 1460 + doe // 36524 - doe // 146096) // 365
    y = yoe + era * 400
    doy = doe - (365 * yoe + yoe // 4 - yoe // 100)
    mp = (5 * doy + 2) // 153
    d = doy - (153 * mp + 2) // 5 + 1
    m = mp + 3 if mp < 10 else mp - 9
    return (y + 1 if m <= 2 else y), m, d


def _days_from_civil(y, m, d):
    y -= 1 if m <= 2 else 0
    era = y // 400
    yoe = y - era * 400
    doy = (153 * (m - 3 if m > 2 else m + 9) + 2) // 5 + d - 1
    doe = yoe * 365 + yoe // 4 - yoe // 100 + doy
    return era * 146097 + doe - 719468


EPOCH_1899_12_30 = -25569        # days from 1970-01-01
_DBM = (0, 31, 59, 90, 120, 151, 181, 212, 243, 273, 304, 334)


def _serial_of(y, m, d):
    """Excel serial (for dates after 1900-03-01) of the d-th day counted from the 1st of month m, year y,
    written from the Gregorian rules: 365 days, leap every 4th year except centuries not divisible by 400"""
    before_year = 365 * (y - 1) + (y - 1) // 4 - (y - 1) // 100 + (y - 1) // 400
    dbm = 0
    for i in range(12):
        if m == i + 1:
            dbm = _DBM[i]
    leap = (y % 4 == 0 and y % 100 != 0) or y % 400 == 0
    if m > 2 and leap:
        dbm += 1
    return before_year + dbm + d - 693594


def ob_roundtrip(n: int) -> Optional[bool]:
    """DATE(y, m, d) = n for (y, m, d) = date_from_int(n), every serial day (with ob_parts: DATE(YEAR,MONTH,DAY) = n)"""
    if not 0 <= n <= MAXN:
        return None
    y, m, d = D.date_from_int(n)
    return DATE(y, m, d) == n


def ob_parts(n: int) -> Optional[bool]:
    """the wrapped YEAR/MONTH/DAY are the components of date_from_int for every serial day (floats: of the floor)"""
    if not 0 <= n <= MAXN:
        return None
    y, m, d = D.date_from_int(n)
    return same(YEAR(n), y) and same(MONTH(n), m) and same(DAY(n), d)


def ob_parts_fraction(n: int, f: float) -> Optional[bool]:
    """a time-of-day fraction does not change the date parts"""
    if not (0 <= n <= MAXN and 0 <= f < 1):
        return None
    y, m, d = D.date_from_int(n)
    return same(YEAR(n + f), y) and same(DAY(n + f), d) and same(WEEKDAY(n + f), WEEKDAY(n))


NSLICE = 16


def _in_slice(n, sl, lo=0, ns=None):
    """serial days are cut into NSLICE windows, one obligation each (together the whole range)"""
    ns = ns or NSLICE
    if sl is None:
        return lo <= n <= MAXN
    a = lo + (MAXN + 1 - lo) * sl // ns
    b = lo + (MAXN + 1 - lo) * (sl + 1) // ns - 1
    return a <= n <= b


def ob_civil(sl, ns, n: int) -> Optional[bool]:
    """for n > 60 the parts are those of 1899-12-30 + n (proleptic Gregorian); day 60 = 1900-02-29, day 0 = 1900-01-00;
    days 1..59 are the real January/February 1900 shifted by the fictitious leap day"""
    if not _in_slice(n, sl, 0, ns):
        return None
    got = (YEAR(n), MONTH(n), DAY(n))
    if n == 0:
        return got == (1900, 1, 0)
    if n == 60:
        return got == (1900, 2, 29)
    if n < 60:
        return got == _civil(EPOCH_1899_12_30 + n + 1)
    return got == _civil(EPOCH_1899_12_30 + n)


def ob_anchor(n: int) -> Optional[bool]:
    """base of the induction: days 0..61 are 1900-01-00 .. 1900-03-01 with the fictitious 29 February at 60"""
    if not 0 <= n <= 61:
        return None
    got = (YEAR(n), MONTH(n), DAY(n))
    if n <= 31:
        return got == (1900, 1, n)
    if n <= 60:
        return got == (1900, 2, n - 31)
    return got == (1900, 3, 1)


def ob_weekday(n: int) -> Optional[bool]:
    """WEEKDAY is in 1..7, advances by one per day and has period 7"""
    if not 0 <= n <= MAXN - 7:
        return None
    w = WEEKDAY(n)
    return 1 <= w <= 7 and WEEKDAY(n + 7) == w and WEEKDAY(n + 1) == w % 7 + 1


# windows of serial days around the years where the Gregorian rules differ (date_from_int is affine in n beyond day 60:
# DATE_ZERO + timedelta(days=n); what these obligations pin is the offset and the 1900 quirk, the calendar itself is
# CPython's)
WINDOWS = {"1900-1902": (61, 1000), "1999-2001": (36200, 37200), "2099-2101": (72700, 73700), "2399-2401": (182300, 183300),
           "9998-9999": (MAXN - 700, MAXN - 1)}


def ob_month_end(w, n: int) -> Optional[bool]:
    """successive days: the day number restarts at 1 exactly when the month (or year) changes"""
    lo, hi = WINDOWS[w] if w is not None else (61, MAXN - 1)
    if not lo <= n <= hi:
        return None
    y, m, d = YEAR(n), MONTH(n), DAY(n)
    y2, m2, d2 = YEAR(n + 1), MONTH(n + 1), DAY(n + 1)
    if d2 == 1:
        # the month that ends has exactly its Gregorian length: with day 61 = 1900-03-01 (ob_anchor) this is the
        # inductive step that makes every later serial day the right civil date
        if m == 2:
            length = 29 if (y % 4 == 0 and (y % 100 != 0 or y % 400 == 0)) else 28
        elif m == 4 or m == 6 or m == 9 or m == 11:
            length = 30
        else:
            length = 31
        return (y2, m2) == ((y, m + 1) if m < 12 else (y + 1, 1)) and d == length
    return (y2, m2, d2) == (y, m, d + 1) and 1 <= d and 1 <= m <= 12


def _ref_date(y, m, d):
    """Excel DATE for y >= 1901: first of the carried month plus d-1 days"""
    yy = y + (m - 1) // 12
    mm = (m - 1) % 12 + 1
    if yy < 1901:
        return None
    return _serial_of(yy, mm, d)


def ob_date_carry(y: int, m: int, d: int) -> Optional[bool]:
    """DATE normalises out-of-range months/days by carrying: DATE(y,m,d) = serial of the 1st of the carried month + d-1"""
    if not (1901 <= y <= 9990 and -40 <= m <= 60 and 1 <= d <= DMAX):
        return None     # d <= 0: known finding C17-day-borrow, asserted separately
    ref = _ref_date(y, m, d)
    if ref is None:
        return None
    return same(DATE(y, m, d), ref)


HIST_YEARS = (1900, 1904, 2000, 2100, 2300, 2400, 9900)


def ob_date_history(i: int, j: int, d: int, e: int) -> Optional[bool]:
    """two DATE calls in one history: the second answer does not depend on the first (month lengths of years that are
    400 apart - 1900 with Excel's 29 February, 2300 without - must not be confused).  Years and days are branched into
    constants and the calls run with the tracer off, so that process state (module-level caches) is the real one."""
    ys = []
    for k in (i, j):
        y = None
        for n, cand in enumerate(HIST_YEARS):
            if k == n:
                y = cand
        if y is None:
            return None
        ys.append(y)
    ds = []
    for k in (d, e):
        if k == 28:
            ds.append(28)
        elif k == 29:
            ds.append(29)
        elif k == 30:
            ds.append(30)
        else:
            return None
    from vf import wb
    with wb.notrace():
        got = [DATE(ys[0], 2, ds[0]), DATE(ys[1], 2, ds[1])]
        exp = [31 + dd if yy == 1900 else _serial_of(yy, 2, dd) for yy, dd in zip(ys, ds)]
    return same(got[0], exp[0]) and same(got[1], exp[1])


def ob_date_carry_far(y: int, m: int, d: int) -> Optional[bool]:
    """day counts beyond a year carry across year ends (leap and common) exactly"""
    if not (1901 <= y <= 9990 and 1 <= m <= 12 and 330 <= d <= 420):
        return None
    return same(DATE(y, m, d), _serial_of(y, m, d))


def ob_eomonth_1900(n: int, k: int) -> Optional[bool]:
    """around Excel's fictitious 1900-02-29: EOMONTH(n,k) is a month's last day (the next day is a 1st) not before
    the start month when k >= 0, and day 60 is the end of February 1900"""
    if not (1 <= n <= 130 and -1 <= k <= 2):
        return None
    r = EOMONTH(n, k)
    idx = YEAR(n) * 12 + MONTH(n) + k
    if idx < 1900 * 12 + 1:          # before January 1900: #NUM! (or serial 0 = "1900-01-00" for December 1899)
        return isinstance(r, str) or (r == 0 and idx == 1900 * 12)
    if isinstance(r, str):
        return False
    if not (DAY(r + 1) == 1 and (k < 0 or r >= n)):
        return False
    return YEAR(r) * 12 + MONTH(r) == idx


def ob_date_carry_known(y: int, m: int, d: int) -> Optional[bool]:
    """the same law inside the known region d <= 0 (expected to be refuted while the finding is open)"""
    if not (1905 <= y <= 9990 and -40 <= m <= 60 and -40 <= d <= 0):
        return None
    return same(DATE(y, m, d), _ref_date(y, m, d))


def ob_date_carry_zero_31(y: int, m: int, d: int) -> Optional[bool]:
    """inside the region, where months m-1 and m are equally long (Dec/Jan, Jul/Aug) the borrow is still exact"""
    if not (1905 <= y <= 9990 and (m == 1 or m == 8) and -30 <= d <= 0):
        return None
    return same(DATE(y, m, d), _ref_date(y, m, d))


def ob_date_range(y: int, m: int, d: int) -> Optional[bool]:
    """DATE outside 0..9999 years is #NUM!; results are never an exception"""
    if not (-3 <= y <= 10002 and -14 <= m <= 14 and -40 <= d <= 40):
        return None
    r = DATE(y, m, d)
    if y < 0 or y > 9999:
        return same(r, NUM_ERROR)
    return isinstance(r, (int, float, str))


def _win(w):
    return WINDOWS[w] if w is not None else (61, MAXN)


def ob_eomonth(K, w, n: int, k: int) -> Optional[bool]:
    """EOMONTH(n,k) is the last day of the month k months away: the next day is the 1st, and the month index
    (12*year+month) moved by exactly k; out-of-range results are #NUM!, never an exception"""
    if not (_win(w)[0] <= n <= _win(w)[1] and -K <= k <= K):
        return None
    r = EOMONTH(n, k)
    idx = YEAR(n) * 12 + MONTH(n) - 1 + k
    if idx < 1900 * 12 + 2 or idx > 9999 * 12 + 10:
        return isinstance(r, (int, str))
    if isinstance(r, str):
        return False
    return YEAR(r) * 12 + MONTH(r) - 1 == idx and DAY(r + 1) == 1 and r >= 61


def ob_eomonth_low(n: int, k: int) -> Optional[bool]:
    """EOMONTH near the start of the calendar never raises: a result before 1900 is #NUM!"""
    if not (0 <= n <= 800 and -30 <= k <= 3):
        return None
    r = EOMONTH(n, k)
    return isinstance(r, (int, float, str))


def ob_edate(K, w, n: int, k: int) -> Optional[bool]:
    """EDATE(n,k) shifts by whole months: same day number (days <= 28), month index moved by exactly k"""
    if not (_win(w)[0] <= n <= _win(w)[1] and -K <= k <= K):
        return None
    d = DAY(n)
    if d > 28:
        return None
    idx = YEAR(n) * 12 + MONTH(n) - 1 + k
    r = EDATE(n, k)
    if idx < 1900 * 12 + 3 or idx > 9999 * 12 + 11:
        return isinstance(r, (int, str))
    if isinstance(r, str):
        return False
    return YEAR(r) * 12 + MONTH(r) - 1 == idx and DAY(r) == d


def ob_months_glue(K, w, n: int, k: int) -> Optional[bool]:
    """EDATE(n,k) = DATE(y, m+k, d) and EOMONTH(n,k) = DATE(y, m+k+1, 1) - 1 for (y, m, d) the parts of n, every serial day
    and |k| <= K: with DATE against the Gregorian oracle (date_carry*, months -1300..1300) this is the month arithmetic"""
    if not (_win(w)[0] <= n <= _win(w)[1] and -K <= k <= K):
        return None
    y, m, d = YEAR(n), MONTH(n), DAY(n)
    e, eo = EDATE(n, k), EOMONTH(n, k)
    de, deo = DATE(y, m + k, d), DATE(y, m + k + 1, 1)
    if isinstance(de, str) or isinstance(e, str):
        if not same(e, de):
            return False
    elif e != de:
        return False
    if isinstance(deo, str) or isinstance(eo, str):
        return same(eo, deo)
    return eo == deo - 1


def ob_date_carry_wide(y: int, m: int, d: int) -> Optional[bool]:
    """DATE carries any number of months (as EDATE/EOMONTH over +-100 years need)"""
    if not (1901 <= y <= 9990 and -1300 <= m <= 1300 and 1 <= d <= 31):
        return None
    ref = _ref_date(y, m, d)
    if ref is None or not (1901 <= y + (m - 1) // 12 <= 9990):
        return None
    return same(DATE(y, m, d), ref)


def ob_yearfrac_sym(basis, w, a: int, b: int) -> Optional[bool]:
    """YEARFRAC is symmetric in its dates and zero on equal dates"""
    lo, hi = _win(w)
    if not (lo <= a <= hi and lo <= b <= hi):
        return None
    if basis == 1 and not -400 <= a - b <= 400:
        return None
    x, y = YEARFRAC(a, b, basis), YEARFRAC(b, a, basis)
    if isinstance(x, str) or isinstance(y, str):
        return False
    return x == y and x >= 0 and (a != b or x == 0)


def ob_yearfrac_range(basis: int, a: int, b: int) -> Optional[bool]:
    """out-of-range dates / bases give #NUM!, never an exception"""
    if not (-5 <= a <= MAXN + 5 and -5 <= b <= MAXN + 5 and -1 <= basis <= 5):
        return None
    if 0 <= a <= MAXN and 0 <= b <= MAXN and 0 <= basis <= 4:
        return None
    return same(YEARFRAC(a, b, basis), NUM_ERROR)


def ob_serial_range(n: int) -> Optional[bool]:
    """negative serials give #NUM! from YEAR/MONTH/DAY/WEEKDAY"""
    if not -1000 <= n < 0:
        return None
    return same(YEAR(n), NUM_ERROR) and same(MONTH(n), NUM_ERROR) and same(DAY(n), NUM_ERROR) and \
        same(WEEKDAY(n), NUM_ERROR)


# ------------------------------------------------------------------ time of day (Engine K, binary64)
def kb_time(E, slice_no, day, width=600):
    """HOUR/MINUTE/SECOND of the serial day + s/86400 (binary64, s a whole second of the given 10-minute slice) are s decomposed"""
    import z3
    from vf.kengine import numeric as KN
    from vf.kengine import strings as KS
    from vf.kengine.sym import RNE, SBool, SFloat
    lo = width * slice_no
    if E.concrete is not None:
        s = E.int("s")
        if not lo <= s < lo + width:
            return None
        x = day + s / 86400
        return (D.hour(x), D.minute(x), D.second(x)) == (s // 3600, s % 3600 // 60, s % 60)
    sb = z3.BitVec("s", 32)
    E.symbols["s"] = ("bv", sb)
    E.add(z3.And(z3.UGE(sb, lo), z3.ULT(sb, lo + width)))
    f64 = z3.Float64()
    frac = z3.fpDiv(RNE, z3.fpSignedToFP(RNE, sb, f64), z3.FPVal(86400.0, f64))
    x = SFloat(z3.fpAdd(RNE, z3.FPVal(float(day), f64), frac), E)
    E.fp_int_as_float = True
    E.fresh_checks = True
    with KS.patched(D, {"math": KN.KMath(), "round": KN.k_round}):
        h, m, sec = D.hour(x), D.minute(x), D.second(x)

    def fp_of(bv):
        return z3.fpSignedToFP(RNE, bv, f64)
    eh = fp_of(z3.UDiv(sb, z3.BitVecVal(3600, 32)))
    em = fp_of(z3.UDiv(z3.URem(sb, z3.BitVecVal(3600, 32)), z3.BitVecVal(60, 32)))
    es = fp_of(z3.URem(sb, z3.BitVecVal(60, 32)))
    return SBool(z3.And(z3.fpEQ(h.e, eh), z3.fpEQ(m.e, em), z3.fpEQ(sec.e, es)), E)


def obligations(tier):
    obs = []

    def add(oid, func, params=(), timeout=200, known=None, engine="X", group=""):
        obs.append(Obligation(PROP, oid, __name__, func, tuple(params), timeout=timeout, float_mode="real",
                              known=known, engine=engine, group=group))
    T = 1 if tier == "quick" else 6
    add("roundtrip", "ob_roundtrip", (), 200 * T, group="calendar")
    add("parts", "ob_parts", (), 200 * T, group="calendar")
    add("parts_fraction", "ob_parts_fraction", (), 200 * T, group="calendar")
    add("weekday", "ob_weekday", (), 100, group="calendar")
    add("anchor", "ob_anchor", (), 100, group="calendar")
    add("serial_range", "ob_serial_range", (), 60, group="calendar")
    add("date_carry", "ob_date_carry", (), 300 * T, group="date")
    add("date_carry_known", "ob_date_carry_known", (), 120, known="C17-day-borrow", group="date")
    add("date_carry_zero_31", "ob_date_carry_zero_31", (), 300 * T, group="date")
    add("date_range", "ob_date_range", (), 300 * T, group="date")
    add("date_carry_far", "ob_date_carry_far", (), 400 * T, group="date")
    add("date_history", "ob_date_history", (), 300, group="date")
    add("eomonth_1900", "ob_eomonth_1900", (), 400 * T, group="months")
    add("eomonth_low", "ob_eomonth_low", (), 300 * T, group="months")
    add("yearfrac_range", "ob_yearfrac_range", (), 200, group="yearfrac")
    for basis in (2, 3):
        add(f"yearfrac_sym[{basis}]", "ob_yearfrac_sym", (basis, None), 900, group="yearfrac")
    slices = (0, 71, 72, 143) if tier == "quick" else tuple(range(144))
    for sl in slices:
        for day in ((0,) if tier == "quick" else (0, 45000)):
            add(f"time_of_day[{sl * 10 // 60:02d}:{sl * 10 % 60:02d}+10min,day={day}]", "kb_time", (sl, day), 600, engine="K", group="time")
    if tier == "thorough":
        for w in WINDOWS:
            add(f"month_end[{w}]", "ob_month_end", (w,), 1500, group="calendar")
        add("civil[1900-1931]", "ob_civil", (0, 256), 2400, group="calendar")
        # ob_months_glue (EDATE/EOMONTH = DATE of the shifted parts) is not registered: |k| <= 1200 and |k| <= 14 in a
        # 1000-day window both ended without a verdict (29..36 paths in 1400..2200 s)
        add("date_carry_wide", "ob_date_carry_wide", (), 2400, group="date")
        for w in ("1999-2001", "2099-2101"):
            for basis in (0, 4):
                add(f"yearfrac_sym[{basis},{w}]", "ob_yearfrac_sym", (basis, w), 900, group="yearfrac")
    return obs
