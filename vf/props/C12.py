"""C12 validate_calcs reports exactly the stored results that disagree.

Engine X on the real validate_calcs / close_enough over a stored-results model (two in-memory
workbooks behind a real ExcelOpxWrapper) in which the stored result of one formula cell is replaced
by a symbolic value; tolerance symbolic.
"""
from typing import Optional

import networkx as nx

from pycel.excelcompiler import ExcelCompiler

from vf import wb
from vf.dom import pick_err
from vf.obl import Obligation

PROP = "C12"
LEVEL = "model_checking"
ENCODES = ["pycel.excelcompiler:ExcelCompiler.validate_calcs", "pycel.excelcompiler:_CellBase.close_enough",
           "pycel.excelcompiler:ExcelCompiler._gen_graph", "pycel.excelcompiler:ExcelCompiler._make_cells",
           "pycel.excelwrapper:ExcelOpxWrapper.get_range", "pycel.excelcompiler:ExcelCompiler.formula_cells"]
BOUNDS = ["templates chain, diamond, sumrange, rangeform, nested, ifs; each formula cell in turn perturbed",
          "perturbed stored result: number s+d (d symbolic int, |d|<=50), text, logical, error value, blank",
          "tolerance: default (relative 1e-5) or a symbolic int 1..10; checked outputs: all formula cells (default) or one explicit output",
          "a cell that cannot be evaluated (unknown function) must be listed under not-implemented/exceptions"]
ASSUMPTIONS = ["floats as exact reals", "stored results are otherwise those a scratch compile produces (consistent workbook)"]

wb.TEMPLATES.setdefault("v_unknown", {"A1": 1, "B1": "=A1+1", "C1": "=NOSUCHFUNCTION(B1)", "D1": "=B1*2"})


def _stored(kind, s, d, e):
    """the altered stored result"""
    if kind == "num":
        return s + d
    if kind == "text":
        return "x" if d > 0 else ""
    if kind == "bool":
        return d > 0
    if kind == "err":
        return pick_err(e)
    return None


def ob_validate(tname, xcell, output, kind, use_tol, d: int, tol: int, e: int) -> Optional[bool]:
    """with the stored result of formula cell X altered: no alteration beyond the tolerance -> empty report; otherwise
    the report names X as a mismatch with (stored, recomputed) and every other reported cell depends on X"""
    if not (-50 <= d <= 50 and 1 <= tol <= 10 and 0 <= e < 7):
        return None
    x = wb.addr(xcell)
    s = wb.stored_values(tname)[x]
    if not isinstance(s, int) or isinstance(s, bool):
        return None
    alt = _stored(kind, s, d, e)
    with wb.notrace():
        w = wb.StoredSubst(tname, {})
    w.subst[x] = alt
    with wb.notrace():
        m = ExcelCompiler(excel=w)
    report = m.validate_calcs(output_addrs=None if output is None else [wb.addr(output)],
                              tolerance=tol if use_tol else None)
    if kind == "num":
        differs = (d > tol or -d > tol) if use_tol else d != 0
    elif kind == "none":
        differs = False                     # no stored result: nothing to compare
    else:
        differs = True
    with wb.notrace():
        desc = {c.address.address for c in nx.descendants(m.dep_graph, m.cell_map[x])} if x in m.cell_map else set()
    if not differs:
        if kind == "none" or d == 0:
            return report == {}
        # altered within the tolerance: X itself is not reported; a dependant may amplify the difference
        if set(report) - {"mismatch"}:
            return False
        for a in report.get("mismatch", {}):
            if a not in desc:
                return False
        return True
    mm = report.get("mismatch", {})
    if set(report) - {"mismatch"}:
        return False
    if x not in mm:
        return False
    got = mm[x]
    if kind == "num" and not (got.original == alt and got.calced == s):
        return False
    for a in mm:
        if a != x and a not in desc:
            return False
    return True


def ob_unreported(tname, d: int) -> Optional[bool]:
    """a cell that cannot be evaluated is reported under not-implemented / exceptions, the others are still checked"""
    if not -50 <= d <= 50:
        return None
    x = wb.addr("D1")
    with wb.notrace():
        w = wb.StoredSubst(tname, {})
    w.subst[x] = wb.stored_values(tname)[x] + d
    with wb.notrace():
        m = ExcelCompiler(excel=w)
    report = m.validate_calcs()
    bad = report.get("not-implemented", {})
    exc = report.get("exceptions", {})
    listed = [t[0] for v in list(bad.values()) + list(exc.values()) for t in v]
    if wb.addr("C1") not in listed:
        return False
    if d != 0:
        return x in report.get("mismatch", {})
    return "mismatch" not in report


CASES = (
    ("chain", "B1", None), ("chain", "C1", None), ("chain", "B1", "C1"),
    ("diamond", "B1", None), ("diamond", "B2", "C1"), ("diamond", "C1", None),
    ("sumrange", "B1", None), ("sumrange", "B1", "C1"),
    ("rangeform", "A2", None), ("rangeform", "A2", "B1"), ("rangeform", "A3", "B1"), ("rangeform", "B1", None),
    ("nested", "B1", "C1"), ("nested", "B2", None),
    ("ifs", "B1", "C1"),
)


def obligations(tier):
    obs = []
    for t, x, out in CASES:
        for kind in ("num", "text", "bool", "err", "none"):
            for use_tol in (False, True):
                if kind != "num" and use_tol:
                    continue
                if tier == "quick" and kind in ("err", "none") and (t, x) not in (("chain", "B1"), ("rangeform", "A2")):
                    continue
                obs.append(Obligation(PROP, f"validate[{t}:{x}{'' if out is None else '<-' + out},{kind}{',tol' if use_tol else ''}]",
                                      __name__, "ob_validate", (t, x, out, kind, use_tol), timeout=200, float_mode="real", group=t))
    obs.append(Obligation(PROP, "unevaluable_reported", __name__, "ob_unreported", ("v_unknown",), timeout=120,
                          float_mode="real", group="exceptions"))
    return obs
