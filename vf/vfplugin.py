"""Excel plugin functions for fault injection (loaded through ExcelCompiler(plugins=...))."""
from pycel.lib.function_helpers import excel_helper

CTRL = {"threshold": None, "fail_on_call": None, "calls": 0, "exc": ValueError}


def reset(threshold=None, fail_on_call=None, exc=ValueError):
    CTRL.update(threshold=threshold, fail_on_call=fail_on_call, calls=0, exc=exc)


@excel_helper(cse_params=0)
def vfail(x):
    """returns x; raises when x exceeds the threshold or on the chosen call number"""
    CTRL["calls"] += 1
    t, k = CTRL["threshold"], CTRL["fail_on_call"]
    if k is not None and CTRL["calls"] == k:
        raise CTRL["exc"]("injected failure on call")
    if t is not None and not isinstance(x, (str, bool)) and x is not None and x > t:
        raise CTRL["exc"]("injected failure above threshold")
    return x


def vterm(*args):
    """uninterpreted function symbol for the C02 term comparison"""
    return ("call", "VTERM", list(args))
