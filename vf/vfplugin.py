"""Excel plugin functions for fault injection (loaded through ExcelCompiler(plugins=...))."""
from pycel.lib.function_helpers import excel_helper

CTRL = {"threshold": None, "fail_on_call": None, "calls": 0, "exc": ValueError}


def reset(threshold=None, fail_on_call=None, exc=ValueError):
    CTRL.update(threshold=threshold, fail_on_call=fail_on_call, calls=0, exc=exc)


@excel_helper(cse_params=0)
def vfail(x):
    """returns x; raises when x exceeds the threshold or on the chosen call number"""
    CTRL["calls"] += 1
    t, k = CTRL["threshold"], CTRL["fail_on_call"]
    if k is not None and CTRL["calls"] == k:
        raise CTRL["exc"]("injected failure on call")
    if t is not None and not isinstance(x, (str, bool)) and x is not None and x > t:
        raise CTRL["exc"]("injected failure above threshold")
    return x


def vterm(*args):
    """uninterpreted function symbol for the C02 term comparison"""
    return ("call", "VTERM", list(args))


# ---------------------------------------------------------------- thread gates (C07 real-thread overlap schedules)
import threading as _threading

GATE = {"on_main": None, "entered": None, "release": None, "main_done": False, "b_done": False}


def gate_reset(on_main=None):
    GATE.update(on_main=on_main, entered=_threading.Event(), release=_threading.Event(), main_done=False, b_done=False)


@excel_helper()
def vgate(x):
    """identity.  First call on the helper thread ('vf-B'): announce 'inside a formula' and wait to be released.
    First call on any other thread: run the registered callback (which starts the helper and waits until it is inside)."""
    if _threading.current_thread().name == "vf-B":
        if not GATE["b_done"]:
            GATE["b_done"] = True
            GATE["entered"].set()
            if not GATE["release"].wait(30):
                raise RuntimeError("gate: never released")
    elif not GATE["main_done"] and GATE["on_main"] is not None:
        GATE["main_done"] = True
        GATE["on_main"]()
    return x
